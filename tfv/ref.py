"""Independent reference implementation of the June-2018 GraphQL algorithms on
the *model* (tfv.model): CoerceVariableValues, CoerceArgumentValues (with
literal coercion), CollectFields, ExecuteSelectionSet, CompleteValue with
non-null propagation and ResolveAbstractType.  Nothing here imports tartiflette.
"""
import math

from tfv.model import (
    BUILTIN_SCALARS,
    fields_of,
    kind_of,
    possible_types,
    ty,
)

ABSENT = object()
INT_MIN, INT_MAX = -(2 ** 31), 2 ** 31 - 1


class RefInputError(Exception):
    def __init__(self, msg, path=()):
        super().__init__(msg)
        self.path = tuple(path)


class RefFieldError(Exception):
    """A field error located at `path` (list of keys/indices)."""

    def __init__(self, path, kind, detail=None):
        super().__init__("%s at %r" % (kind, path))
        self.path = list(path)
        self.kind = kind
        self.detail = detail


class RefRequestError(Exception):
    def __init__(self, kind, names=()):
        super().__init__(kind)
        self.kind = kind
        self.names = list(names)


# ------------------------------------------------------------------ custom scalar codecs
# A custom scalar's implementation is harness-supplied (it is part of the test
# input), so the reference shares its definition with tfv.impl.


def block_string_value(raw):
    """BlockStringValue(rawValue) of the specification (section 2.9.4)."""
    lines = raw.replace("\r\n", "\n").replace("\r", "\n").split("\n")
    common = None
    for line in lines[1:]:
        stripped = line.lstrip(" \t")
        indent = len(line) - len(stripped)
        if stripped and (common is None or indent < common):
            common = indent
    if common:
        lines = [lines[0]] + [l[common:] for l in lines[1:]]
    while lines and not lines[0].strip(" \t"):
        lines.pop(0)
    while lines and not lines[-1].strip(" \t"):
        lines.pop()
    return "\n".join(lines)


def lit_text(lit):
    return block_string_value(lit[1]) if lit[0] == "block" else lit[1]


class TaggedCodec:
    """wire form 'w:<text>'  <->  internal form 'i:<text>'"""

    @staticmethod
    def to_wire(v):
        if v == "i:$null":
            return None  # a scalar may serialise a non-null internal value to null
        if isinstance(v, str) and v.startswith("i:"):
            return "w:" + v[2:]
        raise ValueError("not internal: %r" % (v,))

    @staticmethod
    def from_wire(v):
        if isinstance(v, str) and v.startswith("w:"):
            return "i:" + v[2:]
        raise ValueError("not wire: %r" % (v,))

    @staticmethod
    def from_literal(lit):
        if lit[0] in ("str", "block") and lit_text(lit).startswith("w:"):
            return "i:" + lit_text(lit)[2:]
        raise ValueError("bad literal")

    @staticmethod
    def is_wire(v):
        return isinstance(v, str) and v.startswith("w:")


class EvenCodec:
    """ints only, even only; wire n <-> internal n // 2 (restrictive codec)"""

    @staticmethod
    def to_wire(v):
        if v == 424242:
            return None  # a scalar may serialise a non-null internal value to null
        if isinstance(v, int) and not isinstance(v, bool):
            return v * 2
        raise ValueError("not internal: %r" % (v,))

    @staticmethod
    def from_wire(v):
        if isinstance(v, int) and not isinstance(v, bool) and v % 2 == 0:
            return v // 2
        raise ValueError("not wire: %r" % (v,))

    @staticmethod
    def from_literal(lit):
        if lit[0] == "int" and int(lit[1]) % 2 == 0:
            return int(lit[1]) // 2
        raise ValueError("bad literal")

    @staticmethod
    def is_wire(v):
        return isinstance(v, int) and not isinstance(v, bool) and v % 2 == 0


CODECS = {"tagged": TaggedCodec, "even": EvenCodec}


def codec_of(schema, name):
    return CODECS[schema["types"][name].get("codec", "tagged")]


# ------------------------------------------------------------------ input coercion


def coerce_scalar_input(schema, name, v):
    """Variable (JSON) value -> internal value for a scalar, per spec 3.5."""
    if name == "Int":
        if isinstance(v, bool) or not isinstance(v, int):
            if isinstance(v, float) and math.isfinite(v) and v == math.floor(v) and INT_MIN <= v <= INT_MAX:
                # transport-dependent borderline: accepted either way by the oracle
                raise Borderline(int(v))
            raise RefInputError("Int: bad value")
        if not INT_MIN <= v <= INT_MAX:
            raise RefInputError("Int: out of range")
        return v
    if name == "Float":
        if isinstance(v, bool) or not isinstance(v, (int, float)):
            raise RefInputError("Float: bad value")
        try:
            f = float(v)
        except OverflowError:
            raise RefInputError("Float: too large")
        if not math.isfinite(f):
            raise RefInputError("Float: non finite")
        return f
    if name == "String":
        if not isinstance(v, str):
            raise RefInputError("String: bad value")
        return v
    if name == "Boolean":
        if not isinstance(v, bool):
            raise RefInputError("Boolean: bad value")
        return v
    if name == "ID":
        if isinstance(v, str):
            return v
        if isinstance(v, int) and not isinstance(v, bool):
            return str(v)
        if isinstance(v, float) and math.isfinite(v) and v == math.floor(v):
            raise Borderline(str(int(v)))
        raise RefInputError("ID: bad value")
    try:
        return codec_of(schema, name).from_wire(v)
    except ValueError as e:
        raise RefInputError(str(e))


class Borderline(Exception):
    """Input the specification leaves to the transport; `.value` is what must be
    delivered if the implementation accepts it."""

    def __init__(self, value):
        super().__init__("borderline")
        self.value = value


TRACE = set()  # coverage tags set by coerce_input (reset by callers that want them)


def coerce_input(schema, t, v, path=(), borderline="reject"):
    """JSON value -> coerced value for input type t (parsed).  borderline:
    'reject' | 'accept' decides how Borderline leaves are treated."""
    if len(path) >= 2:
        TRACE.add("depth2")
    if t[0] == "NN":
        if v is None:
            raise RefInputError("null for non-null", path)
        return coerce_input(schema, t[1], v, path, borderline)
    if v is None:
        return None
    if t[0] == "L":
        if isinstance(v, list):
            return [coerce_input(schema, t[1], x, path + (i,), borderline) for i, x in enumerate(v)]
        TRACE.add("list_wrap")
        return [coerce_input(schema, t[1], v, path, borderline)]
    name = t[1]
    k = kind_of(schema, name)
    if k == "ENUM":
        if isinstance(v, str) and v in schema["types"][name]["values"]:
            return v
        raise RefInputError("bad enum value", path)
    if k == "INPUT":
        if not isinstance(v, dict):
            raise RefInputError("expected object", path)
        fdefs = schema["types"][name]["fields"]
        for key in v:
            if key not in fdefs:
                raise RefInputError("unknown field %s" % key, path + (key,))
        out = {}
        for fn, fd in fdefs.items():
            ft = ty(fd["type"])
            if fn in v:
                out[fn] = coerce_input(schema, ft, v[fn], path + (fn,), borderline)
            elif "default" in fd:
                TRACE.add("field_default")
                out[fn] = coerce_literal(schema, ft, fd["default"], {})
            elif ft[0] == "NN":
                raise RefInputError("missing required field %s" % fn, path + (fn,))
        return out
    try:
        return coerce_scalar_input(schema, name, v)
    except Borderline as b:
        if borderline == "accept":
            return b.value
        e = RefInputError("borderline rejected", path)
        e.borderline = True
        raise e
    except RefInputError as e:
        raise RefInputError(str(e), path)


def coerce_scalar_literal(schema, name, lit):
    k = lit[0]
    if name == "Int":
        if k == "int":
            n = int(lit[1])
            if INT_MIN <= n <= INT_MAX:
                return n
        raise RefInputError("Int literal")
    if name == "Float":
        if k in ("int", "float"):
            f = float(lit[1])
            if math.isfinite(f):
                return f
        raise RefInputError("Float literal")
    if name == "String":
        if k in ("str", "block"):
            return lit_text(lit)
        raise RefInputError("String literal")
    if name == "Boolean":
        if k == "bool":
            return lit[1]
        raise RefInputError("Boolean literal")
    if name == "ID":
        if k in ("str", "block"):
            return lit_text(lit)
        if k == "int":
            return str(lit[1])
        raise RefInputError("ID literal")
    try:
        return codec_of(schema, name).from_literal(lit)
    except ValueError as e:
        raise RefInputError(str(e))


def coerce_literal(schema, t, lit, varvals, path=()):
    """Literal (possibly containing variables) -> coerced value (spec 'Input
    Coercion' for literals + variable substitution)."""
    if lit[0] == "var":
        v = varvals.get(lit[1], ABSENT)
        if v is ABSENT:
            # an absent variable inside a literal: only legal in nullable spots
            # (treated as no value); the caller decides; signal with ABSENT
            return ABSENT
        if v is None and t[0] == "NN":
            raise RefInputError("null variable for non-null", path)
        return v
    if t[0] == "NN":
        if lit[0] == "null":
            raise RefInputError("null literal for non-null", path)
        return coerce_literal(schema, t[1], lit, varvals, path)
    if lit[0] == "null":
        return None
    if t[0] == "L":
        if lit[0] == "list":
            out = []
            for i, x in enumerate(lit[1]):
                v = coerce_literal(schema, t[1], x, varvals, path + (i,))
                if v is ABSENT:
                    if t[1][0] == "NN":
                        raise RefInputError("absent variable in non-null list item", path + (i,))
                    v = None
                out.append(v)
            return out
        v = coerce_literal(schema, t[1], lit, varvals, path)
        if v is ABSENT:
            return ABSENT
        return [v]
    name = t[1]
    k = kind_of(schema, name)
    if k == "ENUM":
        if lit[0] == "enum" and lit[1] in schema["types"][name]["values"]:
            return lit[1]
        raise RefInputError("bad enum literal", path)
    if k == "INPUT":
        if lit[0] != "obj":
            raise RefInputError("expected object literal", path)
        fdefs = schema["types"][name]["fields"]
        given = {}
        for fn, fv in lit[1]:
            if fn not in fdefs:
                raise RefInputError("unknown field", path + (fn,))
            if fn in given:
                raise RefInputError("duplicate field", path + (fn,))
            given[fn] = fv
        out = {}
        for fn, fd in fdefs.items():
            ft = ty(fd["type"])
            v = ABSENT
            if fn in given:
                v = coerce_literal(schema, ft, given[fn], varvals, path + (fn,))
            if v is ABSENT:
                if "default" in fd:
                    v = coerce_literal(schema, ft, fd["default"], {})
                elif ft[0] == "NN":
                    raise RefInputError("missing required field %s" % fn, path + (fn,))
                else:
                    continue
            out[fn] = v
        return out
    try:
        return coerce_scalar_literal(schema, name, lit)
    except RefInputError as e:
        raise RefInputError(str(e), path)


def coerce_variable_values(schema, op, provided, borderline="reject"):
    """-> (values, bad) where bad maps each offending variable name to a reason.
    `provided` may be None (treated as {})."""
    provided = provided or {}
    values, bad = {}, {}
    for vd in op.get("vars") or ():
        name, t = vd["name"], ty(vd["type"])
        has = name in provided
        if not has and "default" in vd:
            try:
                values[name] = coerce_literal(schema, t, vd["default"], {})
            except RefInputError as e:
                bad[name] = "invalid default: %s" % e
            continue
        if t[0] == "NN" and (not has or provided[name] is None):
            bad[name] = "non-null variable missing or null"
            continue
        if has:
            try:
                values[name] = coerce_input(schema, t, provided[name], (), borderline)
            except RefInputError as e:
                bad[name] = "invalid value at %r: %s" % (e.path, e)
                if getattr(e, "borderline", False):
                    bad[name] = "borderline"
    return values, bad


def coerce_argument_values(schema, argdefs, given_list, varvals):
    """CoerceArgumentValues.  given_list: [[name, literal]..].  Raises RefInputError."""
    given = {}
    for n, v in given_list or ():
        given[n] = v
    out = {}
    for an, ad in (argdefs or {}).items():
        t = ty(ad["type"])
        v = ABSENT
        if an in given:
            lit = given[an]
            if lit[0] == "var":
                if lit[1] in varvals:
                    v = varvals[lit[1]]
                    if v is None and t[0] == "NN":
                        raise RefInputError("null for non-null argument %s" % an, (an,))
            else:
                v = coerce_literal(schema, t, lit, varvals, (an,))
        if v is ABSENT:
            if "default" in ad:
                v = coerce_literal(schema, t, ad["default"], {})
            elif t[0] == "NN":
                raise RefInputError("missing required argument %s" % an, (an,))
            else:
                continue
        out[an] = v
    return out


# ------------------------------------------------------------------ result coercion


def serialize_leaf(schema, name, v):
    """Result coercion for *unambiguous* values; raises ValueError when the
    specification requires a field error.  Ambiguous conversions (numeric
    strings, bool->int …) are not produced by generators that use this."""
    k = kind_of(schema, name)
    if k == "ENUM":
        if isinstance(v, str) and v in schema["types"][name]["values"]:
            return v
        raise ValueError("enum")
    if name == "Int":
        if isinstance(v, int) and not isinstance(v, bool) and INT_MIN <= v <= INT_MAX:
            return v
        raise ValueError("Int")
    if name == "Float":
        if isinstance(v, (int, float)) and not isinstance(v, bool) and math.isfinite(v):
            return float(v)
        raise ValueError("Float")
    if name == "String":
        if isinstance(v, str):
            return v
        raise ValueError("String")
    if name == "ID":
        if isinstance(v, str):
            return v
        if isinstance(v, int) and not isinstance(v, bool):
            return str(v)
        raise ValueError("ID")
    if name == "Boolean":
        if isinstance(v, bool):
            return v
        raise ValueError("Boolean")
    return codec_of(schema, name).to_wire(v)


# ------------------------------------------------------------------ execution


class Fault:
    """Returned by a provider to make a field fail in a given way."""

    def __init__(self, kind, payload=None):
        self.kind = kind
        self.payload = payload


class Executor:
    def __init__(self, schema, doc, provider, full_evaluation=True):
        self.schema = schema
        self.doc = doc
        self.provider = provider
        self.frags = {d["name"]: d for d in doc["defs"] if d["k"] == "frag"}
        self.ops = [d for d in doc["defs"] if d["k"] == "op"]
        self.errors = []  # RefFieldError, in discovery order
        self.calls = []  # (path tuple, "Type.field", parent nid, args)
        self.type_calls = []  # (path tuple, abstract name, coordinate)
        self.full = full_evaluation
        self.flags = set()  # coverage classes observed while executing
        self.field_nodes = {}  # path tuple -> ids of the field nodes collected for that response key
        self.results = {}  # path tuple -> (type string, raw resolver result) for fault-site discovery

    # -- operation selection
    def get_operation(self, name):
        if name is None:
            if len(self.ops) != 1:
                raise RefRequestError("operation-required")
            return self.ops[0]
        for o in self.ops:
            if o.get("name") == name:
                return o
        raise RefRequestError("unknown-operation")

    def execute(self, operation_name=None, variables=None, root_value=None, borderline="reject"):
        op = self.get_operation(operation_name)
        values, bad = coerce_variable_values(self.schema, op, variables, borderline)
        if bad:
            raise RefRequestError("variables", bad)
        self.vars = values
        self.op = op
        root = self.schema["roots"][op["type"]]
        grouped = self.collect(root, op["sels"], {}, set())
        try:
            data = self.execute_grouped(root, root_value, grouped, [])
        except RefFieldError:
            data = None
        return data

    # -- CollectFields
    def directive_allows(self, node):
        for d in node.get("dirs") or ():
            if d["name"] in ("skip", "include"):
                if d.get("args") and d["args"][0][1][0] == "var":
                    self.flags.add("skipinclude_var")
                self.flags.add("skipinclude")
                args = coerce_argument_values(
                    self.schema, {"if": {"type": "Boolean!"}}, d.get("args"), self.vars
                )
                if d["name"] == "skip" and args["if"] is True:
                    return False
                if d["name"] == "include" and args["if"] is not True:
                    return False
        return True

    def type_applies(self, obj, cond):
        if cond is None or cond == obj:
            return True
        self.flags.add("type_condition_other")
        return kind_of(self.schema, cond) in ("INTERFACE", "UNION") and obj in possible_types(self.schema, cond)

    def collect(self, obj, sels, grouped, visited):
        for s in sels:
            if not self.directive_allows(s):
                continue
            if s["k"] == "field":
                key = s.get("alias") or s["name"]
                grouped.setdefault(key, []).append(s)
            elif s["k"] == "spread":
                if s["name"] in visited:
                    continue
                visited.add(s["name"])
                f = self.frags[s["name"]]
                if not self.type_applies(obj, f["on"]):
                    continue
                self.collect(obj, f["sels"], grouped, visited)
            else:
                if not self.type_applies(obj, s.get("on")):
                    continue
                self.collect(obj, s["sels"], grouped, visited)
        return grouped

    # -- ExecuteSelectionSet
    def execute_grouped(self, obj, value, grouped, path):
        out = {}
        first = None
        for key, nodes in grouped.items():
            name = nodes[0]["name"]
            if len(nodes) > 1:
                self.flags.add("merged_key")
            if name == "__typename":
                out[key] = obj
                continue
            fdef = self.field_def(obj, name)
            if fdef is None:
                continue
            try:
                out[key] = self.execute_field(obj, value, name, fdef, nodes, path + [key])
            except RefFieldError as e:
                if first is None:
                    first = e
                elif e is not first:
                    e.follows = first
                if not self.full:
                    raise
        if first is not None:
            raise first
        return out

    def final_errors(self):
        """[{path, kind, target}] - target is the response path of the position
        this failure nulls (None = the whole data)."""
        out = []
        for e in self.errors:
            x = e
            while x.target is None and getattr(x, "follows", None) is not None:
                x = x.follows
            out.append({"path": list(e.path), "kind": e.kind, "target": x.target, "detail": e.detail})
        return out

    def field_def(self, obj, name):
        return fields_of(self.schema, obj).get(name)

    def execute_field(self, obj, parent, name, fdef, nodes, path):
        t = ty(fdef["type"])
        try:
            self.field_nodes[tuple(path)] = [n.get("id") for n in nodes]
            try:
                args = coerce_argument_values(self.schema, fdef.get("args"), nodes[0].get("args"), self.vars)
            except RefInputError as e:
                raise RefFieldError(path, "argument", str(e))
            self.field_nodes[tuple(path)] = [n.get("id") for n in nodes]
            self.calls.append((tuple(path), "%s.%s" % (obj, name), self.provider.nid(parent), args))
            res = self.provider.resolve(parent, obj, name, args, tuple(path))
            self.results[tuple(path)] = (fdef["type"], res, "%s.%s" % (obj, name))
            if isinstance(res, Fault) and res.kind in ("raise", "raise_tartiflette", "return_exception"):
                raise RefFieldError(path, res.kind, res.payload)
            return self.complete(t, nodes, res, path, "%s.%s" % (obj, name))
        except RefFieldError as e:
            if not getattr(e, "recorded", False):
                e.recorded = True
                e.target = None
                self.errors.append(e)
            if t[0] == "NN":
                raise
            if e.target is None:
                e.target = list(path)
            return None

    def complete(self, t, nodes, res, path, coord):
        if t[0] == "NN":
            v = self.complete(t[1], nodes, res, path, coord)
            if v is None:
                raise RefFieldError(path, "null-for-non-null")
            return v
        if isinstance(res, Fault):
            if res.kind == "value":
                res = res.payload
            elif res.kind == "return_exception":
                raise RefFieldError(path, res.kind, res.payload)
            else:
                raise RefFieldError(path, res.kind, res.payload)
        if res is None:
            return None
        if t[0] == "L":
            if not isinstance(res, list):
                raise RefFieldError(path, "non-list")
            out = []
            first = None
            for i, item in enumerate(res):
                ipath = path + [i]
                try:
                    out.append(self.complete(t[1], nodes, item, ipath, coord))
                except RefFieldError as e:
                    if not getattr(e, "recorded", False):
                        e.recorded = True
                        e.target = None
                        self.errors.append(e)
                    if t[1][0] == "NN":
                        if first is None:
                            first = e
                        elif e is not first:
                            e.follows = first
                        if not self.full:
                            raise
                        out.append(None)
                    else:
                        if e.target is None:
                            e.target = list(ipath)
                        out.append(None)
            if first is not None:
                raise first
            return out
        name = t[1]
        k = kind_of(self.schema, name)
        if k in ("SCALAR", "ENUM"):
            try:
                return serialize_leaf(self.schema, name, res)
            except ValueError:
                raise RefFieldError(path, "unserialisable")
        if k == "OBJECT":
            obj = name
        else:
            self.flags.add("abstract_value")
            if len(path) and isinstance(path[-1], int):
                self.flags.add("abstract_list_item")
            self.type_calls.append((tuple(path), name, coord))
            obj = self.provider.typename(res, name, coord)
            if obj not in self.schema["types"] or kind_of(self.schema, obj) != "OBJECT":
                raise RefFieldError(path, "unknown-runtime-type")
            if obj not in possible_types(self.schema, name):
                raise RefFieldError(path, "impossible-runtime-type")
        grouped = {}
        visited = set()
        for n in nodes:
            if n.get("sels"):
                self.collect(obj, n["sels"], grouped, visited)
        return self.execute_grouped(obj, res, grouped, path)
