"""Generators: schemas, valid documents, values, variables.  Every random
choice goes through a Chooser, which is backed by Hypothesis draws (so cases
shrink and replay) - see tfv.runner.HChooser."""
import copy

from tfv.model import (
    BUILTIN_SCALARS,
    canon,
    fields_of,
    is_composite,
    is_leaf,
    kind_of,
    named,
    possible_types,
    ty,
    ty_str,
    value_vars,
)


class Chooser:
    """Interface; see HChooser (hypothesis) and RChooser (seeded PRNG for tools)."""

    def int(self, lo, hi):
        raise NotImplementedError

    def maybe(self, pct):
        """True with probability pct/100; shrinks to False."""
        return self.int(0, 99) >= 100 - pct

    def choice(self, seq):
        seq = list(seq)
        return seq[self.int(0, len(seq) - 1)]

    def weighted(self, pairs):
        """pairs: [(weight, item)]; first item is the simplest (shrink target)."""
        total = sum(w for w, _ in pairs)
        k = self.int(0, total - 1)
        for w, item in pairs:
            if k < w:
                return item
            k -= w
        return pairs[-1][1]

    def subset(self, seq, pct=50):
        return [x for x in seq if self.maybe(pct)]

    def shuffle(self, seq):
        seq = list(seq)
        out = []
        while seq:
            out.append(seq.pop(self.int(0, len(seq) - 1)))
        return out

    def text(self, alphabet="abcXYZ 019_é\"\\\n", lo=0, hi=6):
        n = self.int(lo, hi)
        return "".join(alphabet[self.int(0, len(alphabet) - 1)] for _ in range(n))


class RChooser(Chooser):
    def __init__(self, rnd):
        self.rnd = rnd

    def int(self, lo, hi):
        return self.rnd.randint(lo, hi)


# =====================================================================  schemas

FIELD_POOL = ["f0", "f1", "f2", "f3", "f4", "f5", "f6"]
# names the SDL grammar must accept as ordinary names
ODD_NAMES = ["type", "input", "on", "query", "enum", "scalar", "SCALAR", "FIELD", "fragment", "schema", "extend", "union", "interface", "implements", "directive", "mutation", "subscription"]


def gen_leaf_type_name(c, schema, input_side=False):
    leafs = list(BUILTIN_SCALARS)
    for n, d in schema["types"].items():
        if d["kind"] in ("ENUM", "SCALAR"):
            leafs.append(n)
    return c.choice(leafs)


def wrap_type(c, name, allow_list=True, max_depth=2, force_nullable_outer=False):
    """random list/non-null wrapping around a named type -> type string"""
    t = name
    if c.maybe(35):
        t += "!"
    if allow_list:
        d = 0
        while d < max_depth and c.maybe(30):
            t = "[" + t + "]"
            if c.maybe(35):
                t += "!"
            d += 1
    if force_nullable_outer and t.endswith("!"):
        t = t[:-1]
    return t


def gen_schema(c, opts=None):
    """-> schema model.  opts: dict of sizes / feature switches."""
    o = {
        "max_objects": 4, "max_interfaces": 2, "max_unions": 2, "max_enums": 2,
        "max_inputs": 2, "max_scalars": 1, "mutation": True, "subscription": False,
        "odd_names": False, "args": True, "custom_roots": True, "query_directive": True,
        "schema_directive": True, "qd_list_arg": False,
    }
    o.update(opts or {})
    schema = {"types": {}, "roots": {}, "directives": {}}
    T = schema["types"]

    def nm(base, i):
        return "%s%d" % (base, i)

    # leaf types first
    for i in range(c.int(0, o["max_scalars"])):
        T[nm("S", i)] = {"kind": "SCALAR", "codec": c.choice(["tagged", "even"])}
    for i in range(c.int(0, o["max_enums"])):
        n = nm("E", i)
        T[n] = {"kind": "ENUM", "values": ["%s_%s" % (n, x) for x in "ABCD"[: c.int(1, 4)]]}
    # input objects (may be recursive through nullable fields)
    n_in = c.int(0, o["max_inputs"])
    in_names = [nm("In", i) for i in range(n_in)]
    for i, n in enumerate(in_names):
        T[n] = {"kind": "INPUT", "fields": {}}
    for i, n in enumerate(in_names):
        fields = {}
        for fn in c.shuffle(FIELD_POOL)[: c.int(1, 3)]:
            if c.maybe(30) and in_names:
                tgt = c.choice(in_names)
                if in_names.index(tgt) > i:
                    t = wrap_type(c, tgt, max_depth=1)
                else:
                    t = wrap_type(c, tgt, max_depth=1, force_nullable_outer=True)
                    # [In!] is still nullable at the outside: fine (well-founded)
                fields[fn] = {"type": t}
            else:
                t = wrap_type(c, gen_leaf_type_name(c, schema, True), max_depth=2)
                fields[fn] = {"type": t}
                if c.maybe(30):
                    fields[fn]["default"] = gen_const_value(c, schema, ty(t), depth=0, block=False)
        T[n]["fields"] = fields

    n_obj = c.int(1, o["max_objects"])
    n_if = c.int(0, o["max_interfaces"])
    n_un = c.int(0, o["max_unions"])
    obj_names = [nm("T", i) for i in range(n_obj)]
    if_names = [nm("I", i) for i in range(n_if)]
    un_names = [nm("U", i) for i in range(n_un)]
    qname = "Query"
    mname = "Mutation"
    if o["custom_roots"] and c.maybe(15):
        qname, mname = "RootQ", "RootM"
    roots = [qname]
    schema["roots"]["query"] = qname
    if o["mutation"] == "always" or (o["mutation"] and c.maybe(40)):
        roots.append(mname)
        schema["roots"]["mutation"] = mname
    sname = None
    if o["subscription"]:
        sname = "Subscription" if qname == "Query" else "RootS"
        schema["roots"]["subscription"] = sname
        roots.append(sname)
    all_obj = roots + obj_names  # index order for well-foundedness

    def gen_args():
        args = {}
        if not o["args"]:
            return args
        for an in c.shuffle(["a0", "a1", "a2"])[: c.weighted([(5, 0), (3, 1), (2, 2)])]:
            in_pool = in_names
            if in_pool and c.maybe(35):
                t = wrap_type(c, c.choice(in_pool), max_depth=1)
            else:
                t = wrap_type(c, gen_leaf_type_name(c, schema, True), max_depth=2)
            args[an] = {"type": t}
            if c.maybe(30):
                args[an]["default"] = gen_const_value(c, schema, ty(t), depth=0, block=False)
        return args

    def gen_field_type(owner_index):
        kind = c.weighted([(5, "leaf"), (3, "object"), (2, "abstract")])
        if kind == "abstract" and not (if_names or un_names):
            kind = "object"
        if kind == "leaf":
            return wrap_type(c, gen_leaf_type_name(c, schema), max_depth=2)
        if kind == "object":
            tgt = c.choice(obj_names)
            t = wrap_type(c, tgt, max_depth=2)
            # well-founded: a bare non-null object reference must point forward
            if ty(t)[0] == "NN" and ty(t)[1][0] == "N":
                if all_obj.index(tgt) <= owner_index:
                    t = t[:-1]
            return t
        tgt = c.choice(if_names + un_names)
        t = wrap_type(c, tgt, max_depth=2)
        if ty(t)[0] == "NN" and ty(t)[1][0] == "N":
            t = t[:-1]
        return t

    # interfaces
    for n in if_names:
        fields = {}
        for fn in c.shuffle(FIELD_POOL)[: c.int(1, 2)]:
            fields[fn] = {"type": wrap_type(c, gen_leaf_type_name(c, schema), max_depth=1), "args": gen_args()}
        T[n] = {"kind": "INTERFACE", "fields": fields}
    # objects
    for idx, n in enumerate(all_obj):
        fields = {}
        impl = []
        if n in obj_names:
            for iname in if_names:
                if c.maybe(55):
                    impl.append(iname)
        for iname in impl:
            for fn, fd in T[iname]["fields"].items():
                if fn in fields:
                    continue
                fields[fn] = copy.deepcopy(fd)
        # conflicting interface field definitions: keep first one only when equal
        ok_impl = []
        for iname in impl:
            if all(canon(fields[fn]) == canon(fd) for fn, fd in T[iname]["fields"].items()):
                ok_impl.append(iname)
        impl = ok_impl
        # at least one leaf field
        pool = [f for f in c.shuffle(FIELD_POOL) if f not in fields]
        nextra = c.int(1, 4) if n in roots else c.int(0 if fields else 1, 3)
        for fn in pool[:nextra]:
            fields[fn] = {"type": gen_field_type(idx), "args": gen_args()}
        if not any(is_leaf_name(schema, named(ty(fd["type"]))) for fd in fields.values()):
            fn = next(f for f in FIELD_POOL + ["leaf"] if f not in fields)
            fields[fn] = {"type": wrap_type(c, gen_leaf_type_name(c, schema), allow_list=False), "args": {}}
        T[n] = {"kind": "OBJECT", "fields": fields, "interfaces": impl}
    # interfaces with no implementer get one (an interface value needs a runtime type)
    for iname in if_names:
        if not possible_types(schema, iname):
            tgt = c.choice(obj_names)
            t = T[tgt]
            if all(fn not in t["fields"] or canon(t["fields"][fn]) == canon(fd) for fn, fd in T[iname]["fields"].items()):
                for fn, fd in T[iname]["fields"].items():
                    t["fields"].setdefault(fn, copy.deepcopy(fd))
                t["interfaces"].append(iname)
            else:
                # give up on this interface: nobody references it validly -> drop
                pass
    for n in un_names:
        T[n] = {"kind": "UNION", "members": c.shuffle(obj_names)[: c.int(1, min(3, len(obj_names)))]}
    # drop abstract types without possible types and retarget their users
    dead = [n for n in if_names if not possible_types(schema, n)]
    for n in dead:
        del T[n]
    if dead:
        for tn, td in T.items():
            for fn, fd in list(td.get("fields", {}).items()):
                if named(ty(fd["type"])) in dead:
                    fd["type"] = "String"
    if o["query_directive"]:
        schema["directives"]["qd"] = {
            # same argument name as field arguments (a0..a2) on purpose: per-node context must not leak between them
            # (with qd_list_arg also a list argument, so that variables can sit *inside* a directive argument's literal)
            "args": dict({"a0": {"type": "Int"}}, **({"a1": {"type": "[Int]"}} if o["qd_list_arg"] else {})),
            "locations": ["FIELD", "FRAGMENT_SPREAD", "INLINE_FRAGMENT", "QUERY", "MUTATION", "SUBSCRIPTION", "FRAGMENT_DEFINITION"],
        }
    if o["schema_directive"] and c.maybe(50):
        schema["directives"]["sd"] = {
            "args": {},
            "locations": ["SCALAR", "OBJECT", "FIELD_DEFINITION", "ARGUMENT_DEFINITION", "INTERFACE", "UNION", "ENUM", "ENUM_VALUE", "INPUT_OBJECT", "INPUT_FIELD_DEFINITION"],
        }
        sd = [{"name": "sd", "args": []}]
        for tn, td in T.items():
            if c.maybe(25):
                td["dirs"] = sd
            if td["kind"] == "ENUM":
                td["value_dirs"] = {v: sd for v in td["values"] if c.maybe(25)}
            for fn, fd in (td.get("fields") or {}).items():
                if td["kind"] == "INTERFACE":
                    continue  # keep interface / implementer field definitions textually equal
                if c.maybe(25) and not any(fn in T[i]["fields"] for i in td.get("interfaces", ())):
                    fd["dirs"] = sd
                for an, ad in (fd.get("args") or {}).items():
                    if c.maybe(25) and not any(fn in T[i]["fields"] for i in td.get("interfaces", ())):
                        ad["dirs"] = sd
    # order of type definitions in the SDL is free: shuffle
    order = c.shuffle(list(T)) if c.maybe(50) else list(T)
    schema["types"] = {n: T[n] for n in order}
    return schema


def is_leaf_name(schema, name):
    if name in BUILTIN_SCALARS:
        return True
    return name in schema["types"] and schema["types"][name]["kind"] in ("SCALAR", "ENUM")


# =====================================================================  values


def gen_scalar_literal(c, schema, name, block=True):
    if name == "Int":
        return ["int", str(c.choice([0, 1, -1, 7, 42, 2 ** 31 - 1, -(2 ** 31), c.int(-1000, 1000)]))]
    if name == "Float":
        return c.choice([["float", "1.5"], ["int", "3"], ["float", "-0.25"], ["float", "1e3"], ["float", "2.5E-2"], ["int", "0"], ["float", "%d.%d" % (c.int(0, 99), c.int(0, 9))]])
    if name == "String":
        return ["str", c.text()] if (not block or c.maybe(85)) else ["block", c.text(alphabet="abc XY\n", lo=1)]
    if name == "Boolean":
        return ["bool", c.maybe(50)]
    if name == "ID":
        return ["str", c.text(alphabet="abc019", lo=1)] if c.maybe(60) else ["int", str(c.int(0, 99999))]
    codec = schema["types"][name].get("codec", "tagged")
    if codec == "tagged":
        return ["str", "w:" + c.text(alphabet="abc01", lo=0, hi=4)]
    return ["int", str(2 * c.int(-50, 50))]


def gen_const_value(c, schema, t, depth=0, nullp=12, single_list=True, block=True):
    """constant literal valid for input type t"""
    if t[0] == "NN":
        return gen_const_value(c, schema, t[1], depth, 0, single_list, block)
    if nullp and c.maybe(nullp):
        return ["null"]
    if t[0] == "L":
        if single_list and c.maybe(8):
            v = gen_const_value(c, schema, t[1], depth + 1, 0, single_list, block)
            if v[0] != "list":
                return v
        return ["list", [gen_const_value(c, schema, t[1], depth + 1, nullp, single_list, block) for _ in range(c.int(0, 2 if depth else 3))]]
    name = t[1]
    k = kind_of(schema, name)
    if k == "ENUM":
        return ["enum", c.choice(schema["types"][name]["values"])]
    if k == "INPUT":
        fields = []
        for fn, fd in schema["types"][name]["fields"].items():
            ft = ty(fd["type"])
            required = ft[0] == "NN" and "default" not in fd
            if required or (depth < 2 and c.maybe(55)):
                if depth >= 2 and ft[0] != "NN":
                    fields.append([fn, ["null"]])
                else:
                    fields.append([fn, gen_const_value(c, schema, ft, depth + 1, nullp, single_list, block)])
        return ["obj", c.shuffle(fields)]
    return gen_scalar_literal(c, schema, name, block)


def literal_to_json(schema, t, lit):
    """The JSON (variables-side) spelling of a constant literal of type t - used
    to pass 'the same value' through a variable."""
    if lit[0] == "null":
        return None
    if t[0] == "NN":
        return literal_to_json(schema, t[1], lit)
    if t[0] == "L":
        if lit[0] == "list":
            return [literal_to_json(schema, t[1], x) for x in lit[1]]
        return literal_to_json(schema, t[1], lit)
    name = t[1]
    k = kind_of(schema, name)
    if k == "ENUM":
        return lit[1]
    if k == "INPUT":
        fdefs = schema["types"][name]["fields"]
        return {fn: literal_to_json(schema, ty(fdefs[fn]["type"]), fv) for fn, fv in lit[1]}
    if lit[0] == "int":
        if name == "Float":
            return int(lit[1])
        return int(lit[1])
    if lit[0] == "float":
        return float(lit[1])
    if lit[0] == "block":
        from tfv.ref import block_string_value

        return block_string_value(lit[1])
    return lit[1]


def compatible(var_t, loc_t):
    """AreTypesCompatible(variableType, locationType)"""
    if loc_t[0] == "NN":
        if var_t[0] != "NN":
            return False
        return compatible(var_t[1], loc_t[1])
    if var_t[0] == "NN":
        return compatible(var_t[1], loc_t)
    if loc_t[0] == "L":
        return var_t[0] == "L" and compatible(var_t[1], loc_t[1])
    return var_t[0] == "N" and var_t == loc_t


# =====================================================================  documents


class Scope:
    """Response-key registry of one (merged) selection set: key -> entry
    {"name","args","type","scope"}; see DESIGN 2.3 (field-selection merging)."""

    def __init__(self):
        self.e = {}

    def copy(self):
        s = Scope()
        for k, v in self.e.items():
            s.e[k] = {"name": v["name"], "args": v["args"], "type": v["type"], "argdefs": v["argdefs"], "scope": v["scope"].copy() if v["scope"] else None}
        return s

    def can_merge(self, other):
        for k, v in other.e.items():
            m = self.e.get(k)
            if m is None:
                continue
            if m["name"] != v["name"] or m["type"] != v["type"] or m["argdefs"] != v["argdefs"] or canon(m["args"]) != canon(v["args"]):
                return False
            if m["scope"] and v["scope"] and not m["scope"].can_merge(v["scope"]):
                return False
        return True

    def merge(self, other):
        for k, v in other.e.items():
            m = self.e.get(k)
            if m is None:
                self.e[k] = {"name": v["name"], "args": v["args"], "type": v["type"], "argdefs": v["argdefs"], "scope": v["scope"].copy() if v["scope"] else None}
            elif m["scope"] and v["scope"]:
                m["scope"].merge(v["scope"])


class DocGen:
    def __init__(self, c, schema, opts=None):
        self.c = c
        self.schema = schema
        o = {
            "max_ops": 3, "max_frags": 4, "max_depth": 4, "max_sels": 4, "vars": True,
            "directives": True, "custom_directive": True, "meta": True, "op_types": None,
            "introspection": False, "max_nodes": 40, "nested_vars": True,
            "absent_nested_vars": False,
        }
        o.update(opts or {})
        self.o = o
        self.next_id = 0
        self.next_alias = 0
        self.vars = {}  # name -> {"type", "default"?, "nn_use", "must_provide"}
        self.frags = []  # generated fragment defs with "sig" and "uses_vars", "uses_frags"
        self.nodes = 0
        self.stats = {}

    def nid(self):
        self.next_id += 1
        return self.next_id

    def stat(self, k):
        self.stats[k] = self.stats.get(k, 0) + 1

    # ---------------------------------------------------------------- variables
    def var_for(self, loc_t, used, loc_has_default=False, nested=False):
        """Return ["var", name] usable at a location of type loc_t."""
        c = self.c
        # reuse
        cands = [n for n, v in self.vars.items() if self.usable(v, loc_t, loc_has_default)]
        if cands and c.maybe(35):
            n = c.choice(cands)
        else:
            n = "v%d" % len(self.vars)
            vt = loc_t
            v = {"type": None}
            if loc_t[0] != "NN" and c.maybe(30):
                vt = ("NN", loc_t)  # stricter variable type
            elif loc_t[0] == "NN" and c.maybe(25):
                # nullable variable with a non-null default in a non-null location
                vt = loc_t[1]
                v["default"] = gen_const_value(c, self.schema, loc_t, nullp=0)
                self.stat("var_nn_via_default")
            elif c.maybe(25):
                v["default"] = gen_const_value(c, self.schema, vt)
            v["type"] = ty_str(vt)
            self.vars[n] = v
        v = self.vars[n]
        if loc_t[0] == "NN" and ty(v["type"])[0] != "NN":
            v["nn_use"] = True
        if nested:
            v["must_provide"] = True
            self.stat("var_nested")
        used.add(n)
        return ["var", n]

    def usable(self, v, loc_t, loc_has_default):
        vt = ty(v["type"])
        if loc_t[0] == "NN" and vt[0] != "NN":
            has_nn_default = "default" in v and v["default"][0] != "null"
            if not (has_nn_default or loc_has_default):
                return False
            return compatible(vt, loc_t[1])
        return compatible(vt, loc_t)

    # ---------------------------------------------------------------- values
    def value(self, t, used, depth=0, top=True, loc_has_default=False):
        """literal for an argument position of type t, possibly with variables"""
        c = self.c
        if self.o["vars"] and (top or self.o["nested_vars"]) and c.maybe(22 if top else 12):
            return self.var_for(t, used, loc_has_default, nested=not top)
        if t[0] == "NN":
            return self.value_nn(t[1], used, depth)
        if c.maybe(10):
            return ["null"]
        return self.value_nn(t, used, depth)

    def value_nn(self, t, used, depth):
        c = self.c
        if t[0] == "NN":
            t = t[1]
        if t[0] == "L":
            inner = t[1][1] if t[1][0] == "NN" else t[1]
            if inner[0] != "L" and c.maybe(8):
                self.stat("single_into_list")
                return self.value_nn(inner, used, depth + 1)
            return ["list", [self.value(t[1], used, depth + 1, top=False) for _ in range(c.int(0, 2))]]
        name = t[1]
        k = kind_of(self.schema, name)
        if k == "INPUT":
            fields = []
            for fn, fd in self.schema["types"][name]["fields"].items():
                ft = ty(fd["type"])
                required = ft[0] == "NN" and "default" not in fd
                if required or (depth < 2 and c.maybe(55)):
                    if depth >= 2 and ft[0] != "NN":
                        fields.append([fn, ["null"]])
                    else:
                        fields.append([fn, self.value(ft, used, depth + 1, top=False, loc_has_default="default" in fd)])
            return ["obj", c.shuffle(fields)]
        if k == "ENUM":
            return ["enum", c.choice(self.schema["types"][name]["values"])]
        return gen_scalar_literal(c, self.schema, name)

    def arguments(self, argdefs, used):
        c = self.c
        out = []
        for an, ad in (argdefs or {}).items():
            t = ty(ad["type"])
            required = t[0] == "NN" and "default" not in ad
            if required or c.maybe(60):
                out.append([an, self.value(t, used, loc_has_default="default" in ad)])
        return c.shuffle(out)

    def directives(self, location, used):
        """location: FIELD | FRAGMENT_SPREAD | INLINE_FRAGMENT | QUERY | MUTATION | SUBSCRIPTION | FRAGMENT_DEFINITION"""
        c = self.c
        out = []
        if getattr(self, "_suppress_once", False):
            self._suppress_once = False
            return out
        if not self.o["directives"]:
            return out
        if location in ("FIELD", "FRAGMENT_SPREAD", "INLINE_FRAGMENT"):
            for dn in ("skip", "include"):
                if c.maybe(self.o.get("p_skipinclude", 10)):
                    if self.o["vars"] and c.maybe(50):
                        v = self.var_for(ty("Boolean!"), used)
                        self.stat("skipinclude_var")
                    else:
                        v = ["bool", c.maybe(50)]
                    out.append({"name": dn, "args": [["if", v]]})
        if self.o["custom_directive"] and "qd" in (self.schema.get("directives") or {}) and c.maybe(8):
            args = []
            if c.maybe(50):
                args = [["a0", self.value(ty("Int"), used)]]
            if "a1" in self.schema["directives"]["qd"]["args"] and c.maybe(60):
                args.append(["a1", self.value(ty("[Int]"), used)])
            out.append({"name": "qd", "args": args})
            self.stat("custom_directive_" + location)
        return c.shuffle(out)

    # ---------------------------------------------------------------- selections
    def fresh_alias(self):
        self.next_alias += 1
        return "k%d" % self.next_alias

    def overlapping(self, ptype):
        """type conditions that can apply inside ptype (spread is possible)"""
        pp = set(possible_types(self.schema, ptype))
        out = []
        for n, d in self.schema["types"].items():
            if d["kind"] in ("OBJECT", "INTERFACE", "UNION") and not n.startswith("__"):
                if pp & set(possible_types(self.schema, n)):
                    out.append(n)
        return out

    def selset(self, ptype, depth, scope, used, ufrags, avail_frags):
        c = self.c
        sels = []
        n = c.int(1, self.o["max_sels"])
        if self.nodes > self.o["max_nodes"]:
            n = 1
        for _ in range(n):
            s = self.selection(ptype, depth, scope, used, ufrags, avail_frags)
            if s is not None:
                sels.append(s)
        if not sels:
            sels.append(self.leaf_selection(ptype, scope, used))
        return sels

    def leaf_selection(self, ptype, scope, used):
        """a selection that needs no sub-selection (terminates recursion)"""
        c = self.c
        fdefs = fields_of(self.schema, ptype)
        leafs = [fn for fn, fd in fdefs.items() if is_leaf_name(self.schema, named(ty(fd["type"]))) and not fn.startswith("__")]
        if leafs and c.maybe(85):
            return self.field(ptype, c.choice(leafs), 99, scope, used, set(), [])
        return self.field(ptype, "__typename", 99, scope, used, set(), [])

    def selection(self, ptype, depth, scope, used, ufrags, avail_frags):
        c = self.c
        kind = c.weighted([(60, "field"), (self.o.get("w_inline", 14), "inline"), (self.o.get("w_spread", 14), "spread"), (6, "typename"), (self.o.get("w_repeat", 6), "repeat")])
        fdefs = fields_of(self.schema, ptype)
        too_big = self.nodes > self.o["max_nodes"]
        if kind == "spread":
            pp = set(possible_types(self.schema, ptype))
            cands = [f for f in avail_frags if pp & set(possible_types(self.schema, f["on"])) and scope.can_merge(f["sig"])]
            if not cands:
                kind = "field"
            else:
                f = c.choice(cands)
                scope.merge(f["sig"])
                ufrags.add(f["name"])
                used |= f["uses_vars_all"]
                self.stat("spread")
                return {"k": "spread", "name": f["name"], "dirs": self.directives("FRAGMENT_SPREAD", used), "id": self.nid()}
        if kind == "inline" and depth < self.o["max_depth"] and not too_big:
            conds = self.overlapping(ptype)
            on = c.choice([None] + conds) if c.maybe(85) else ptype
            inner_type = on or ptype
            self.stat("inline")
            if on and on != ptype:
                self.stat("inline_narrowing")
            dirs = self.directives("INLINE_FRAGMENT", used)
            return {"k": "inline", "on": on, "dirs": dirs, "sels": self.selset(inner_type, depth + 1, scope, used, ufrags, avail_frags), "id": self.nid()}
        if kind == "typename" or not fdefs:
            return self.field(ptype, "__typename", depth, scope, used, ufrags, avail_frags)
        if kind == "repeat":
            # deliberately re-select a response key already in this scope
            cands = [k for k, e in scope.e.items() if e["name"] in fdefs and fdefs[e["name"]]["type"] == e["type"] and canon(fdefs[e["name"]].get("args") or {}) == e["argdefs"]]
            if cands:
                key = c.choice(cands)
                self.stat("repeat_key")
                return self.field(ptype, scope.e[key]["name"], depth, scope, used, ufrags, avail_frags, force_key=key)
        names = [fn for fn in fdefs]
        if depth >= self.o["max_depth"] or too_big:
            names = [fn for fn in names if is_leaf_name(self.schema, named(ty(fdefs[fn]["type"])))]
            if not names:
                return self.field(ptype, "__typename", depth, scope, used, ufrags, avail_frags)
        return self.field(ptype, c.choice(names), depth, scope, used, ufrags, avail_frags)

    def field(self, ptype, fname, depth, scope, used, ufrags, avail_frags, force_key=None):
        c = self.c
        self.nodes += 1
        if fname == "__typename":
            fd = {"type": "String!", "args": {}}
        else:
            fd = fields_of(self.schema, ptype)[fname]
        key = force_key
        alias = None
        if key is None:
            key = fname
            if c.maybe(25):
                alias = key = self.fresh_alias()
        elif key != fname:
            alias = key
        entry = scope.e.get(key)
        argdefs = canon(fd.get("args") or {})
        if entry is not None and (entry["name"] != fname or entry["type"] != fd["type"] or entry["argdefs"] != argdefs):
            alias = key = self.fresh_alias()
            entry = None
            self.stat("alias_to_avoid_conflict")
        if entry is not None:
            args = copy.deepcopy(entry["args"])
            used |= set(v for _, a in args for v in value_vars(a))
            self.stat("merged_key")
        else:
            args = self.arguments(fd.get("args"), used)
            nt = named(ty(fd["type"]))
            entry = {"name": fname, "args": args, "type": fd["type"], "argdefs": argdefs, "scope": Scope() if not is_leaf_name(self.schema, nt) else None}
            scope.e[key] = entry
        node = {"k": "field", "alias": alias, "name": fname, "args": args, "dirs": self.directives("FIELD", used), "sels": None, "id": self.nid()}
        nt = named(ty(fd["type"]))
        if not is_leaf_name(self.schema, nt):
            node["sels"] = self.selset(nt, depth + 1, entry["scope"], used, ufrags, avail_frags)
        return node

    def subscription_root(self, root, scope, used, ufrags, frags):
        """exactly one root field (possibly inside inline fragments); never skipped"""
        c = self.c
        fname = c.choice(list(fields_of(self.schema, root)))
        self._suppress_once = True  # the root field itself carries no directive (it must not be skipped)
        node = self.field(root, fname, 0, scope, used, ufrags, frags)
        sels = [node]
        if c.maybe(30):
            # the same response key selected again (directly, inside an inline fragment or through a named fragment): CollectFields still
            # yields exactly one entry, so the operation stays valid (June 2018, 5.2.3.1)
            self._suppress_once = True
            twin = self.field(root, fname, 0, scope, used, ufrags, frags, force_key=node["alias"] or node["name"])
            place = c.weighted([(4, "direct"), (3, "inline"), (3, "named")])
            if place == "inline":
                twin = {"k": "inline", "on": c.choice([None, root]), "dirs": [], "sels": [twin], "id": self.nid()}
            elif place == "named":
                # through a fragment of its own on the subscription root (never offered to other selections)
                name = "FS%d" % len(self.extra_frags)
                self.extra_frags.append({"k": "frag", "name": name, "on": root, "dirs": [], "sels": [twin], "id": self.nid(), "sig": Scope(), "uses_frags": set(), "uses_vars_all": set()})
                ufrags.add(name)
                twin = {"k": "spread", "name": name, "dirs": [], "id": self.nid()}
                self.stat("subscription_root_repeated_via_named_fragment")
            sels.insert(c.int(0, 1), twin)
            self.stat("subscription_root_repeated")
        for _ in range(c.weighted([(6, 0), (3, 1), (1, 2)])):
            sels = [{"k": "inline", "on": c.choice([None, root]), "dirs": [], "sels": sels, "id": self.nid()}]
            self.stat("subscription_root_in_inline")
        return sels

    # ---------------------------------------------------------------- definitions
    def fragment(self, index, avail_frags):
        c = self.c
        conds = [n for n, d in self.schema["types"].items() if d["kind"] in ("OBJECT", "INTERFACE", "UNION") and not n.startswith("__")]
        on = c.choice(conds)
        scope = Scope()
        used, ufrags = set(), set()
        sels = self.selset(on, self.o["max_depth"] - 2, scope, used, ufrags, avail_frags)
        dirs = self.directives("FRAGMENT_DEFINITION", used)
        f = {"k": "frag", "name": "F%d" % index, "on": on, "dirs": dirs, "sels": sels, "id": self.nid()}
        f["sig"] = scope
        f["uses_frags"] = ufrags
        all_vars = set(used)
        f["uses_vars_all"] = all_vars
        return f

    def document(self):
        c = self.c
        o = self.o
        nfr = c.int(0, o["max_frags"])
        frags = []
        self.extra_frags = []
        for i in reversed(range(nfr)):
            frags.append(self.fragment(i, list(frags)))
        op_types = o["op_types"] or (["query", "mutation"] if self.schema["roots"].get("mutation") else ["query"])
        nops = c.weighted([(6, 1), (3, 2), (1, 3)][: o["max_ops"]])
        ops = []
        anonymous = nops == 1 and c.maybe(50)
        for i in range(nops):
            otype = op_types[0] if i == 0 else c.weighted([(7, op_types[0])] + [(3, t) for t in op_types[1:]])
            root = self.schema["roots"][otype]
            used, ufrags = set(), set()
            scope = Scope()
            self.nodes = 0
            if otype == "subscription":
                sels = self.subscription_root(root, scope, used, ufrags, frags)
            else:
                sels = self.selset(root, 0, scope, used, ufrags, frags)
            dirs = self.directives(otype.upper(), used)
            op = {"k": "op", "type": otype, "name": None if anonymous else "Op%d" % i, "dirs": dirs, "sels": sels, "id": self.nid(), "_used": used, "_ufrags": ufrags}
            if anonymous and otype == "query" and not dirs and c.maybe(50):
                op["shorthand"] = True
            ops.append(op)
        # reachability
        frags = frags + self.extra_frags
        by_name = {f["name"]: f for f in frags}
        reach_all = set()
        for op in ops:
            seen = set()
            stack = list(op.pop("_ufrags"))
            while stack:
                n = stack.pop()
                if n in seen:
                    continue
                seen.add(n)
                stack.extend(by_name[n]["uses_frags"])
            reach_all |= seen
            used = op.pop("_used")
            for n in seen:
                used |= by_name[n]["uses_vars_all"]
            op["vars"] = []
            for vn in sorted(used, key=lambda s: int(s[1:])):
                v = self.vars[vn]
                d = {"name": vn, "type": v["type"]}
                if "default" in v:
                    d["default"] = v["default"]
                op["vars"].append(d)
            if op.get("shorthand") and op["vars"]:
                op["shorthand"] = False
            op["vars"] = c.shuffle(op["vars"]) if c.maybe(30) else op["vars"]
        live = [f for f in frags if f["name"] in reach_all]
        for f in live:
            for k in ("sig", "uses_frags", "uses_vars_all"):
                f.pop(k, None)
        defs = ops + live
        if c.maybe(60):
            defs = c.shuffle(defs)
        self.stats["n_frags"] = len(live)
        self.stats["n_ops"] = len(ops)
        return {"defs": defs}

    # ---------------------------------------------------------------- variable values
    def variable_values(self, op):
        """JSON variables object valid for the operation"""
        c = self.c
        out = {}
        for vd in op.get("vars") or ():
            v = self.vars[vd["name"]]
            t = ty(v["type"])
            can_omit = t[0] != "NN" or "default" in v
            if "default" in v and v["default"][0] == "null" and v.get("nn_use"):
                can_omit = False
            if t[0] != "NN" and "default" not in v and v.get("nn_use"):
                can_omit = False  # location default would apply; keep it simple: provide
            if v.get("must_provide") and not self.o["absent_nested_vars"]:
                can_omit = "default" in v and not (v["default"][0] == "null" and v.get("nn_use"))
            if can_omit and c.maybe(30):
                self.stat("var_omitted")
                continue
            nullp = 0 if (t[0] == "NN" or v.get("nn_use")) else 12
            lit = gen_const_value(c, self.schema, t, nullp=nullp)
            out[vd["name"]] = literal_to_json(self.schema, t, lit)
        if c.maybe(15):
            out["extra_undeclared"] = 1
        return out


def gen_split(c, schema, kinds=("OBJECT", "INTERFACE", "INPUT", "ENUM", "UNION"), p=50):
    """{type name: k}: which type definitions the SDL spells as a definition plus an `extend` block (model.split_type)"""
    from tfv.model import MEMBERS_KEY

    out = {}
    for n, t in schema["types"].items():
        if t["kind"] in kinds and not n.startswith("__"):
            m = len(t[MEMBERS_KEY[t["kind"]]])
            if m >= 2 and c.maybe(p):
                out[n] = c.int(1, m - 1)
    return out


def add_schema_directive(schema):
    """`schema @sd { ... }`: the pass-through directive also wraps the execution of every request (on_schema_execution /
    on_schema_subscription of impl.CountingDirective)"""
    d = schema.setdefault("directives", {}).setdefault("sd", {"args": {}, "locations": []})
    if "SCHEMA" not in d["locations"]:
        d["locations"] = list(d["locations"]) + ["SCHEMA"]
    schema["schema_dirs"] = list(schema.get("schema_dirs") or []) + [{"name": "sd", "args": []}]
