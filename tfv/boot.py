"""Process bootstrap: build the stand-in libgraphqlparser.so if needed, pin the
environment, make /repo and /verif/.deps importable.  Import this before tartiflette."""
import os
import subprocess
import sys
import sysconfig

VERIF = os.path.dirname(os.path.dirname(os.path.abspath(__file__)))
REPO = os.environ.get("TFV_REPO", "/repo")
BUILD = os.path.join(VERIF, ".build")
DEPS = os.path.join(VERIF, ".deps")
SO = os.path.join(BUILD, "libgraphqlparser.so")
WHEELS = "/opt/veriftools/wheels"


def build_trampoline(force=False):
    src = os.path.join(VERIF, "tfv", "tramp.c")
    if (
        not force
        and os.path.exists(SO)
        and os.path.getmtime(SO) >= os.path.getmtime(src)
    ):
        return
    os.makedirs(BUILD, exist_ok=True)
    inc = sysconfig.get_paths()["include"]
    tmp = SO + ".%d.tmp" % os.getpid()
    cc = "clang" if _which("clang") else "gcc"
    subprocess.check_call(
        [cc, "-O1", "-shared", "-fPIC", "-I", inc, src, "-o", tmp]
    )
    os.replace(tmp, SO)


def _which(x):
    for p in os.environ.get("PATH", "").split(":"):
        if os.path.exists(os.path.join(p, x)):
            return True
    return False


def ensure_deps():
    try:
        import hypothesis  # noqa
        return
    except ImportError:
        pass
    os.makedirs(DEPS, exist_ok=True)
    subprocess.check_call(
        [
            sys.executable, "-m", "pip", "install", "-q", "--no-index",
            "--find-links", WHEELS, "--target", DEPS, "hypothesis",
        ]
    )


def boot():
    """Idempotent."""
    if VERIF not in sys.path:
        sys.path.insert(0, VERIF)
    if os.path.isdir(DEPS) and DEPS not in sys.path:
        sys.path.append(DEPS)
    if REPO not in sys.path:
        sys.path.insert(0, REPO)
    build_trampoline()
    ensure_deps()
    if os.path.isdir(DEPS) and DEPS not in sys.path:
        sys.path.append(DEPS)
    os.environ["LIBGRAPHQLPARSER_DIR"] = BUILD
    # guard variable for (currently nonexistent) source hooks
    os.environ.setdefault("TARTIFLETTE_VERIF", "1")


def reexec_pinned():
    """Re-execute the interpreter once with a pinned environment so that every
    run is a pure function of (code, VERIF_SEED)."""
    if os.environ.get("TFV_PINNED") == "1":
        return
    env = dict(os.environ)
    env["TFV_PINNED"] = "1"
    env["PYTHONHASHSEED"] = "0"
    env["PYTHONDONTWRITEBYTECODE"] = "1"
    env["PIP_NO_INDEX"] = "1"
    env.setdefault("LC_ALL", "C.UTF-8")
    os.execve(sys.executable, [sys.executable] + sys.argv, env)
