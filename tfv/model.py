"""Schema / document models (plain JSON-able data) and their printers.

Type references are strings in GraphQL notation ("[Int!]!"); `ty()` parses them
into nested tuples ('N', name) | ('L', inner) | ('NN', inner).

Values (literals, defaults) are tagged lists:
  ["null"] ["int","5"] ["float","1.5"] ["str","x"] ["block","x"] ["bool",True]
  ["enum","A"] ["list",[v..]] ["obj",[[name,v]..]] ["var","name"]

Schema model:
  {"types": {name: tdef}, "roots": {"query": n, "mutation": n?, "subscription": n?},
   "directives": {name: {"args": {..}, "locations": [..]}}, "explicit_schema": bool}
  tdef OBJECT    {"kind","fields": {f: {"type","args": {a: {"type","default"?}}, "dirs"?}}, "interfaces": [..]}
       INTERFACE {"kind","fields"}
       UNION     {"kind","members"}
       ENUM      {"kind","values": [..]}
       INPUT     {"kind","fields": {f: {"type","default"?}}}
       SCALAR    {"kind"}

Document model:
  {"defs": [op | frag]}   (definition order is print order)
  op   {"k":"op","type","name","vars":[{"name","type","default"?}],"dirs":[..],"sels":[..]}
  frag {"k":"frag","name","on","dirs","sels"}
  sel  {"k":"field","alias","name","args":[[n,v]..],"dirs","sels"|None,"id"}
       {"k":"spread","name","dirs","id"} {"k":"inline","on"|None,"dirs","sels","id"}
  dir  {"name","args":[[n,v]..]}
"""
import functools
import json

BUILTIN_SCALARS = ("Int", "Float", "String", "Boolean", "ID")


@functools.lru_cache(maxsize=None)
def ty(s):
    s = s.strip()
    if s.endswith("!"):
        return ("NN", ty(s[:-1]))
    if s.startswith("["):
        assert s.endswith("]"), s
        return ("L", ty(s[1:-1]))
    return ("N", s)


def ty_str(t):
    if t[0] == "NN":
        return ty_str(t[1]) + "!"
    if t[0] == "L":
        return "[" + ty_str(t[1]) + "]"
    return t[1]


def named(t):
    while t[0] != "N":
        t = t[1]
    return t[1]


def nullable(t):
    return t[1] if t[0] == "NN" else t


def is_nn(t):
    return t[0] == "NN"


def kind_of(schema, name):
    if name in BUILTIN_SCALARS:
        return "SCALAR"
    return schema["types"][name]["kind"]


def is_leaf(schema, name):
    return kind_of(schema, name) in ("SCALAR", "ENUM")


def is_composite(schema, name):
    return kind_of(schema, name) in ("OBJECT", "INTERFACE", "UNION")


def is_input_named(schema, name):
    return kind_of(schema, name) in ("SCALAR", "ENUM", "INPUT")


def possible_types(schema, name):
    """Object type names a composite type can be at run time (declaration order)."""
    t = schema["types"][name]
    if t["kind"] == "OBJECT":
        return [name]
    if t["kind"] == "UNION":
        return list(t["members"])
    if t["kind"] == "INTERFACE":
        return [
            n
            for n, d in schema["types"].items()
            if d["kind"] == "OBJECT" and name in d.get("interfaces", ())
        ]
    return []


def fields_of(schema, name):
    t = schema["types"][name]
    return t.get("fields", {}) if t["kind"] in ("OBJECT", "INTERFACE") else {}


# ---------------------------------------------------------------- value printer

_ESC = {'"': '\\"', "\\": "\\\\", "\n": "\\n", "\r": "\\r", "\t": "\\t", "\b": "\\b", "\f": "\\f"}


def print_string(s):
    out = []
    for ch in s:
        if ch in _ESC:
            out.append(_ESC[ch])
        elif ord(ch) < 0x20 or ord(ch) == 0x7F:
            out.append("\\u%04x" % ord(ch))
        else:
            out.append(ch)
    return '"' + "".join(out) + '"'


def print_value(v, sep=", "):
    k = v[0]
    if k == "null":
        return "null"
    if k in ("int", "float", "enum"):
        return str(v[1])
    if k == "str":
        return print_string(v[1])
    if k == "block":
        return '"""' + v[1].replace('"""', '\\"""') + '"""'
    if k == "bool":
        return "true" if v[1] else "false"
    if k == "var":
        return "$" + v[1]
    if k == "list":
        return "[" + sep.join(print_value(x, sep) for x in v[1]) + "]"
    if k == "obj":
        return "{" + sep.join("%s: %s" % (n, print_value(x, sep)) for n, x in v[1]) + "}"
    raise ValueError(v)


def value_vars(v, acc=None):
    """names of variables used inside a value"""
    acc = [] if acc is None else acc
    if v[0] == "var":
        acc.append(v[1])
    elif v[0] == "list":
        for x in v[1]:
            value_vars(x, acc)
    elif v[0] == "obj":
        for _, x in v[1]:
            value_vars(x, acc)
    return acc


# ---------------------------------------------------------------- SDL printer


def print_dirs(dirs):
    out = ""
    for d in dirs or ():
        out += " @" + d["name"]
        if d.get("args"):
            out += "(" + ", ".join("%s: %s" % (n, print_value(v)) for n, v in d["args"]) + ")"
    return out


def _print_args_def(args):
    if not args:
        return ""
    parts = []
    for an, ad in args.items():
        s = "%s: %s" % (an, ad["type"])
        if "default" in ad:
            s += " = " + print_value(ad["default"])
        s += print_dirs(ad.get("dirs"))
        parts.append(s)
    return "(" + ", ".join(parts) + ")"


def print_type_def(name, t, extend=False):
    k = t["kind"]
    pre = "extend " if extend else ""
    dirs = print_dirs(t.get("dirs"))
    if k == "SCALAR":
        return "%sscalar %s%s" % (pre, name, dirs)
    if k == "ENUM":
        vals = []
        for v in t["values"]:
            vd = (t.get("value_dirs") or {}).get(v)
            vals.append("  " + v + print_dirs(vd))
        return "%senum %s%s {\n%s\n}" % (pre, name, dirs, "\n".join(vals))
    if k == "UNION":
        return "%sunion %s%s = %s" % (pre, name, dirs, " | ".join(t["members"]))
    if k == "INPUT":
        lines = []
        for fn, fd in t["fields"].items():
            s = "  %s: %s" % (fn, fd["type"])
            if "default" in fd:
                s += " = " + print_value(fd["default"])
            s += print_dirs(fd.get("dirs"))
            lines.append(s)
        return "%sinput %s%s {\n%s\n}" % (pre, name, dirs, "\n".join(lines))
    kw = "type" if k == "OBJECT" else "interface"
    impl = ""
    if k == "OBJECT" and t.get("interfaces"):
        impl = " implements " + " & ".join(t["interfaces"])
    lines = []
    for fn, fd in t["fields"].items():
        lines.append(
            "  %s%s: %s%s" % (fn, _print_args_def(fd.get("args")), fd["type"], print_dirs(fd.get("dirs")))
        )
    body = " {\n%s\n}" % "\n".join(lines) if lines else ""
    return "%s%s %s%s%s%s" % (pre, kw, name, impl, dirs, body)


def print_directive_def(name, d):
    return "directive @%s%s on %s" % (name, _print_args_def(d.get("args")), " | ".join(d["locations"]))


def print_schema_def(schema):
    roots = schema["roots"]
    lines = ["  %s: %s" % (op, roots[op]) for op in ("query", "mutation", "subscription") if roots.get(op)]
    return "schema%s {\n%s\n}" % (print_dirs(schema.get("schema_dirs")), "\n".join(lines))


def needs_schema_def(schema):
    r = schema["roots"]
    return (
        schema.get("explicit_schema")
        or r.get("query") != "Query"
        or r.get("mutation", "Mutation") != "Mutation"
        or r.get("subscription", "Subscription") != "Subscription"
        or bool(schema.get("schema_dirs"))
    )


MEMBERS_KEY = {"OBJECT": "fields", "INTERFACE": "fields", "INPUT": "fields", "ENUM": "values", "UNION": "members"}


def split_type(t, k):
    """(base, extension) of a type definition: the first k fields/values/members stay in the definition, the rest
    arrive through an `extend` block (same order, so the extended type equals the unsplit one)"""
    key = MEMBERS_KEY[t["kind"]]
    base, ext = dict(t), {"kind": t["kind"]}
    if key == "fields":
        items = list(t["fields"].items())
        base["fields"], ext["fields"] = dict(items[:k]), dict(items[k:])
        if t["kind"] == "OBJECT":
            ext["interfaces"] = []
    else:
        base[key], ext[key] = list(t[key][:k]), list(t[key][k:])
        if key == "values" and t.get("value_dirs"):
            ext["value_dirs"] = t["value_dirs"]
    return base, ext


def print_sdl(schema, ext_dirs=False, split=None):
    """ext_dirs: type-level directives are moved into directive-only `extend` pieces;
    split: {type name: k} - see split_type"""
    if split:
        schema = dict(schema)
        types, tail = {}, []
        for n, t in schema["types"].items():
            k = split.get(n)
            if k and t["kind"] in MEMBERS_KEY and 0 < k < len(t[MEMBERS_KEY[t["kind"]]]):
                types[n], ext = split_type(t, k)
                tail.append(print_type_def(n, ext, extend=True))
            else:
                types[n] = t
        schema["types"] = types
        return print_sdl(schema, ext_dirs) + "\n" + "\n\n".join(tail) + "\n"
    parts = []
    for n, d in (schema.get("directives") or {}).items():
        parts.append(print_directive_def(n, d))
    if needs_schema_def(schema):
        parts.append(print_schema_def(schema))
    exts = []
    for n, t in schema["types"].items():
        if ext_dirs and t.get("dirs"):
            bare = dict(t)
            bare.pop("dirs")
            parts.append(print_type_def(n, bare))
            kw = {"SCALAR": "scalar", "ENUM": "enum", "UNION": "union", "INPUT": "input", "OBJECT": "type", "INTERFACE": "interface"}[t["kind"]]
            exts.append("extend %s %s%s" % (kw, n, print_dirs(t["dirs"])))
        else:
            parts.append(print_type_def(n, t))
    return "\n\n".join(parts + exts) + "\n"


# ---------------------------------------------------------------- document printer


class DocPrinter:
    """Prints a document model; records for every selection/definition/argument
    node id its source span as ((line, col), (line, col_end_exclusive)) in
    1-based lines and 1-based *byte* columns (the libgraphqlparser convention)."""

    def __init__(self, style=0):
        self.buf = []
        self.off = 0
        self.spans = {}  # id -> (start_off, end_off)
        self.arg_spans = {}  # (id, argname) -> (start_off, end_off)
        self.style = style

    def w(self, s):
        self.buf.append(s)
        self.off += len(s)

    def nl(self, ind):
        if self.style == 1:
            self.w(" ")
        else:
            self.w("\n" + "  " * ind)

    def args(self, node_id, args):
        if not args:
            return
        self.w("(")
        for i, (n, v) in enumerate(args):
            if i:
                self.w(", " if self.style != 2 else " ")
            st = self.off
            self.w("%s: %s" % (n, print_value(v)))
            if node_id is not None:
                self.arg_spans[(node_id, n)] = (st, self.off)
        self.w(")")

    def dirs(self, dirs):
        for d in dirs or ():
            self.w(" @" + d["name"])
            self.args(None, d.get("args"))

    def sels(self, sels, ind):
        self.w("{")
        for s in sels:
            self.nl(ind + 1)
            st = self.off
            if s["k"] == "field":
                if s.get("alias"):
                    self.w(s["alias"] + ": ")
                self.w(s["name"])
                self.args(s.get("id"), s.get("args"))
                self.dirs(s.get("dirs"))
                if s.get("sels") is not None:
                    self.w(" ")
                    self.sels(s["sels"], ind + 1)
            elif s["k"] == "spread":
                self.w("..." + s["name"])
                self.dirs(s.get("dirs"))
            else:
                self.w("...")
                if s.get("on"):
                    self.w(" on " + s["on"])
                self.dirs(s.get("dirs"))
                self.w(" ")
                self.sels(s["sels"], ind + 1)
            if s.get("id") is not None:
                self.spans[s["id"]] = (st, self.off)
        self.nl(ind)
        self.w("}")

    def definition(self, d):
        st = self.off
        if d["k"] == "raw":
            self.w(d["text"])
            return
        if d["k"] == "op":
            if d.get("shorthand") and not d.get("vars") and not d.get("dirs"):
                self.sels(d["sels"], 0)
            else:
                self.w(d["type"])
                if d.get("name"):
                    self.w(" " + d["name"])
                if d.get("vars"):
                    self.w("(")
                    for i, v in enumerate(d["vars"]):
                        if i:
                            self.w(", ")
                        vst = self.off
                        self.w("$%s: %s" % (v["name"], v["type"]))
                        if "default" in v:
                            self.w(" = " + print_value(v["default"]))
                        self.arg_spans[("var", d.get("name"), v["name"])] = (vst, self.off)
                    self.w(")")
                self.dirs(d.get("dirs"))
                self.w(" ")
                self.sels(d["sels"], 0)
        else:
            self.w("fragment %s on %s" % (d["name"], d["on"]))
            self.dirs(d.get("dirs"))
            self.w(" ")
            self.sels(d["sels"], 0)
        if d.get("id") is not None:
            self.spans[d["id"]] = (st, self.off)

    def document(self, doc):
        for i, d in enumerate(doc["defs"]):
            if i:
                self.w("\n\n" if self.style != 1 else " ")
            self.definition(d)
        return "".join(self.buf)


class Printed:
    def __init__(self, text, spans, arg_spans):
        self.text = text
        self._spans = spans
        self._arg_spans = arg_spans
        self._line_starts = [0]
        for i, ch in enumerate(text):
            if ch == "\n":
                self._line_starts.append(i + 1)

    def offset_of(self, line, col):
        """char offset of a 1-based (line, byte column); None if outside the text."""
        if line < 1 or line > len(self._line_starts) or col < 1:
            return None
        start = self._line_starts[line - 1]
        end = self._line_starts[line] - 1 if line < len(self._line_starts) else len(self.text)
        linetext = self.text[start:end]
        b = linetext.encode("utf-8")
        if col - 1 > len(b):
            return None
        try:
            return start + len(b[: col - 1].decode("utf-8"))
        except UnicodeDecodeError:
            return None

    def span(self, node_id):
        return self._spans.get(node_id)

    def inside(self, node_id, line, col):
        off = self.offset_of(line, col)
        sp = self._spans.get(node_id)
        return off is not None and sp is not None and sp[0] <= off < sp[1]


def print_document(doc, style=0):
    p = DocPrinter(style)
    text = p.document(doc)
    return Printed(text, p.spans, p.arg_spans)


def canon(x):
    return json.dumps(x, sort_keys=True, separators=(",", ":"), default=repr)
