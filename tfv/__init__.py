"""tfv - property-based verification harness for tartiflette (see /verif/DESIGN.md)."""
