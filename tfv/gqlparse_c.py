"""Entry point called from the C trampoline (tramp.c): bytes in, (ok, bytes) out."""
from tfv import gqlparse


def parse_c(text: bytes):
    try:
        return (True, gqlparse.parse_to_json(text))
    except gqlparse.GQLSyntaxError as e:
        return (False, str(e).encode("utf-8", "replace"))
    except RecursionError:
        return (False, b"1.1: syntax error, nesting too deep")
    except UnicodeDecodeError:
        return (False, b"1.1: syntax error, invalid utf-8")
