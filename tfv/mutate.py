"""Catalogue of violation-injecting rewrites for executable documents (C07).

`sites(schema, doc)` walks a valid carrier document and yields addressable
sites; `mutants(schema, doc)` yields (rewrite_id, site_class, nontrivial,
mutated_doc) such that the mutated document certainly violates the named
validation rule (the rules tartiflette documents as supported)."""
import copy

from tfv.model import (
    BUILTIN_SCALARS,
    fields_of,
    is_composite,
    kind_of,
    named,
    possible_types,
    ty,
    ty_str,
)

META_TYPENAME = {"type": "String!", "args": {}}


def get_path(doc, path):
    x = doc
    for k in path:
        x = x[k]
    return x


def frag_map(doc):
    return {d["name"]: d for d in doc["defs"] if d["k"] == "frag"}


def ops_reaching(doc):
    """fragment name -> set of op def indices that (transitively) spread it"""
    frs = frag_map(doc)

    def spreads_in(sels, acc):
        for s in sels:
            if s["k"] == "spread":
                acc.add(s["name"])
            elif s.get("sels"):
                spreads_in(s["sels"], acc)
        return acc

    direct = {n: spreads_in(f["sels"], set()) for n, f in frs.items()}
    out = {n: set() for n in frs}
    for i, d in enumerate(doc["defs"]):
        if d["k"] != "op":
            continue
        seen = set()
        stack = list(spreads_in(d["sels"], set()))
        while stack:
            n = stack.pop()
            if n in seen or n not in frs:
                continue
            seen.add(n)
            stack.extend(direct[n])
        for n in seen:
            out[n].add(i)
    return out


def sites(schema, doc):
    """yield dict sites.  kinds:
    selset  {path (to the sels list), ptype, where, depth}
    field   {path (to node), ptype, fdef, where, depth}
    spread/inline {path, ptype, where, depth}
    value   {path (to the [name, value] pair or list item holder), key, type, where, depth, owner: 'field'|'directive', nested}
    dirs    {path (to node owning 'dirs'), location, where}
    """
    dirdefs = dict(schema.get("directives") or {})
    dirdefs["skip"] = {"args": {"if": {"type": "Boolean!"}}}
    dirdefs["include"] = {"args": {"if": {"type": "Boolean!"}}}

    def values(holder_path, v, t, where, depth, owner, nested, loc_default=False):
        # holder_path addresses a list `[name, value]` or a list of values; index gives the slot
        yield {"kind": "value", "path": holder_path, "type": t, "where": where, "depth": depth, "owner": owner, "nested": nested, "value": v, "loc_default": loc_default}
        if v[0] == "var" or v[0] == "null":
            return
        tn = t[1] if t[0] == "NN" else t
        if tn[0] == "L":
            if v[0] == "list":
                for i, x in enumerate(v[1]):
                    yield from values(holder_path + [1, i], x, tn[1], where, depth, owner, nested + 1)
            return
        if v[0] == "obj" and kind_of(schema, tn[1]) == "INPUT":
            fdefs = schema["types"][tn[1]]["fields"]
            for i, (fn, fv) in enumerate(v[1]):
                if fn in fdefs:
                    yield from values(holder_path + [1, i, 1], fv, ty(fdefs[fn]["type"]), where, depth, owner, nested + 1, "default" in fdefs[fn])

    def dirs(node_path, node, location, where, depth):
        yield {"kind": "dirs", "path": node_path, "location": location, "where": where, "depth": depth}
        for di, d in enumerate(node.get("dirs") or ()):
            dd = dirdefs.get(d["name"])
            if not dd:
                continue
            for ai, (an, av) in enumerate(d.get("args") or ()):
                if an in (dd.get("args") or {}):
                    yield from values(node_path + ["dirs", di, "args", ai, 1], av, ty(dd["args"][an]["type"]), where, depth, "directive", 0, "default" in dd["args"][an])

    def selset(path, sels, ptype, where, depth):
        yield {"kind": "selset", "path": path, "ptype": ptype, "where": where, "depth": depth}
        for i, s in enumerate(sels):
            p = path + [i]
            if s["k"] == "field":
                fd = META_TYPENAME if s["name"] == "__typename" else fields_of(schema, ptype).get(s["name"])
                if fd is None:
                    continue
                yield {"kind": "field", "path": p, "ptype": ptype, "fdef": fd, "where": where, "depth": depth}
                yield from dirs(p, s, "FIELD", where, depth)
                for ai, (an, av) in enumerate(s.get("args") or ()):
                    if an in (fd.get("args") or {}):
                        yield from values(p + ["args", ai, 1], av, ty(fd["args"][an]["type"]), where, depth, "field", 0, "default" in fd["args"][an])
                if s.get("sels"):
                    yield from selset(p + ["sels"], s["sels"], named(ty(fd["type"])), where, depth + 1)
            elif s["k"] == "spread":
                yield {"kind": "spread", "path": p, "ptype": ptype, "where": where, "depth": depth}
                yield from dirs(p, s, "FRAGMENT_SPREAD", where, depth)
            else:
                yield {"kind": "inline", "path": p, "ptype": ptype, "where": where, "depth": depth}
                yield from dirs(p, s, "INLINE_FRAGMENT", where, depth)
                yield from selset(p + ["sels"], s["sels"], s.get("on") or ptype, where, depth + 1)

    for i, d in enumerate(doc["defs"]):
        if d["k"] == "op":
            where = ("op", i)
            yield {"kind": "op", "path": ["defs", i], "where": where}
            yield from dirs(["defs", i], d, d["type"].upper(), where, 0)
            yield from selset(["defs", i, "sels"], d["sels"], schema["roots"][d["type"]], where, 0)
        elif d["k"] == "frag":
            where = ("frag", d["name"])
            yield {"kind": "fragdef", "path": ["defs", i], "where": where}
            yield from dirs(["defs", i], d, "FRAGMENT_DEFINITION", where, 0)
            yield from selset(["defs", i, "sels"], d["sels"], d["on"], where, 0)


def set_value(doc, holder_path, new):
    holder = get_path(doc, holder_path[:-1])
    holder[holder_path[-1]] = new


def wrong_literals(schema, t):
    """[(class, literal)] literals that are certainly not valid for input type t"""
    out = []
    if t[0] == "NN":
        out.append(("null_for_non_null", ["null"]))
        t = t[1]
    if t[0] == "L":
        # a scalar of the wrong kind is wrong at any list depth (single-value coercion keeps the kind)
        inner = t
        while inner[0] in ("L", "NN"):
            inner = inner[1]
        for cl, lit in wrong_literals(schema, inner):
            if cl != "null_for_non_null":
                out.append(("list_" + cl, ["list", [lit]]))
                out.append(("single_for_list_" + cl, lit))
        return out
    name = t[1]
    k = kind_of(schema, name)
    if k == "ENUM":
        vals = schema["types"][name]["values"]
        out += [("string_for_enum", ["str", vals[0]]), ("int_for_enum", ["int", "1"]), ("unknown_enum_value", ["enum", "NOT_A_VALUE"]), ("bool_for_enum", ["bool", True])]
    elif k == "INPUT":
        out += [("scalar_for_object", ["int", "1"]), ("list_for_object", ["list", [["int", "1"]]]), ("unknown_input_field", ["obj", [["zz_unknown", ["int", "1"]]]])]
    elif name == "Int":
        out += [("string_for_int", ["str", "1"]), ("float_for_int", ["float", "1.5"]), ("bool_for_int", ["bool", True]), ("enum_for_int", ["enum", "one"]), ("object_for_scalar", ["obj", [["a", ["int", "1"]]]]), ("int_out_of_range", ["int", "2147483648"])]
    elif name == "Float":
        out += [("string_for_float", ["str", "1.5"]), ("bool_for_float", ["bool", False]), ("enum_for_float", ["enum", "x"])]
    elif name == "String":
        out += [("int_for_string", ["int", "1"]), ("enum_for_string", ["enum", "abc"]), ("bool_for_string", ["bool", True]), ("float_for_string", ["float", "1.0"])]
    elif name == "Boolean":
        out += [("int_for_boolean", ["int", "1"]), ("string_for_boolean", ["str", "true"]), ("enum_for_boolean", ["enum", "TRUE"])]
    elif name == "ID":
        out += [("float_for_id", ["float", "1.5"]), ("bool_for_id", ["bool", True]), ("enum_for_id", ["enum", "abc"])]
    else:
        codec = schema["types"][name].get("codec", "tagged")
        if codec == "tagged":
            out += [("int_for_custom", ["int", "1"]), ("badstr_for_custom", ["str", "nope"])]
        else:
            out += [("str_for_custom", ["str", "2"]), ("odd_for_custom", ["int", "3"])]
    return out


def incompatible_var_type(schema, t):
    """a variable type that may not flow into a location of type t"""
    out = []
    tn = t[1] if t[0] == "NN" else t
    if t[0] == "NN":
        out.append(("nullable_into_non_null", ty_str(tn)))
    if tn[0] == "L":
        inner = tn[1]
        base = named(inner)
        out.append(("item_for_list", ty_str(inner if inner[0] != "NN" else inner[1]) + "!"))
        other = "String" if base != "String" else "Int"
        out.append(("wrong_item_type", "[%s!]!" % other))
        if inner[0] == "NN":
            out.append(("nullable_items_into_non_null_items", "[%s]!" % ty_str(inner[1])))
    else:
        base = tn[1]
        other = "String" if base != "String" else "Int"
        out.append(("wrong_named_type", other + "!"))
        out.append(("list_for_item", "[%s!]!" % base))
    return out


def add_var(doc, op_indices, name, type_str):
    for i in op_indices:
        d = doc["defs"][i]
        d.setdefault("vars", [])
        d["vars"] = list(d["vars"]) + [{"name": name, "type": type_str}]
        d["shorthand"] = False
        if d.get("name") is None:
            d["_force_keyword"] = True


def mutants(schema, doc, limit_per_rewrite=None):
    """yield (rewrite, site_class, nontrivial, mutated_doc)"""
    S = list(sites(schema, doc))
    reach = ops_reaching(doc)
    frs = frag_map(doc)
    op_idx = [i for i, d in enumerate(doc["defs"]) if d["k"] == "op"]

    def ops_for(where):
        if where[0] == "op":
            return [where[1]]
        return sorted(reach.get(where[1], ()))

    def wclass(s):
        w = "in_fragment" if s["where"][0] == "frag" else "in_operation"
        return w + ("_nested" if s.get("depth", 0) > 0 else "")

    def nontriv(s, extra=False):
        return s["where"][0] == "frag" or s.get("depth", 0) > 0 or extra

    def mk():
        return copy.deepcopy(doc)

    def leaf(name, alias=None, args=None, dirs=None, sels=None):
        return {"k": "field", "alias": alias, "name": name, "args": args or [], "dirs": dirs or [], "sels": sels, "id": None}

    # ---- document-level rewrites
    for text, cl in (("type ZzType { a: Int }", "object_type"), ("scalar ZzScalar", "scalar"), ("extend type Query { zz: Int }", "extension")):
        for pos in ("last", "first"):
            m = mk()
            raw = {"k": "raw", "text": text}
            m["defs"] = [raw] + m["defs"] if pos == "first" else m["defs"] + [raw]
            yield "non_executable_definition", cl + "_" + pos, False, m
    named_ops = [i for i in op_idx if doc["defs"][i].get("name")]
    for i in named_ops:
        m = mk()
        dup = copy.deepcopy(m["defs"][i])
        dup["vars"] = copy.deepcopy(dup.get("vars") or [])
        m["defs"].append(dup)
        yield "duplicate_operation_name", "named", False, m
    # anonymous + other
    m = mk()
    extra = {"k": "op", "type": "query", "name": None, "vars": [], "dirs": [], "sels": [leaf("__typename")], "shorthand": True}
    if named_ops:
        m["defs"].append(extra)
        yield "anonymous_plus_other", "anonymous_added_to_named", False, m
    else:
        m["defs"].append(extra)
        yield "anonymous_plus_other", "two_anonymous", False, m
    # unused fragment
    m = mk()
    qroot = schema["roots"]["query"]
    m["defs"].append({"k": "frag", "name": "ZzUnused", "on": qroot, "dirs": [], "sels": [leaf("__typename")]})
    yield "unused_fragment", "appended", False, m
    for fname, f in frs.items():
        m = mk()
        m["defs"].append(copy.deepcopy(f))
        yield "duplicate_fragment_name", "used_fragment", True, m
    # variables at operation level
    for i in op_idx:
        d = doc["defs"][i]
        m = mk()
        add_var(m, [i], "zzUnused", "Int")
        yield "unused_variable", "operation", False, m
        if d.get("vars"):
            m = mk()
            m["defs"][i]["vars"] = list(m["defs"][i]["vars"]) + [copy.deepcopy(m["defs"][i]["vars"][0])]
            yield "duplicate_variable", "operation", False, m
        for bad in [n for n, t in schema["types"].items() if t["kind"] in ("OBJECT", "INTERFACE", "UNION")][:2]:
            m = mk()
            add_var(m, [i], "zzObj", bad)
            m["defs"][i]["sels"].append(leaf("__typename", alias="zzk", dirs=[{"name": "qd", "args": [["a0", ["var", "zzObj"]]]}] if "qd" in (schema.get("directives") or {}) else []))
            yield "variable_non_input_type", kind_of(schema, bad).lower(), False, m

    # ---- subscriptions: more than one root field (direct / through inline / through named fragment)
    sub_ops = [i for i in op_idx if doc["defs"][i]["type"] == "subscription"]
    sroot = schema["roots"].get("subscription")
    for rank, i in enumerate(sub_ops):
        which = "first_subscription" if rank == 0 else "later_subscription"
        extra = leaf("__typename", alias="zzSecondRoot")
        fnames = [fn for fn in fields_of(schema, sroot)] if sroot else []
        m = mk()
        m["defs"][i]["sels"].append(copy.deepcopy(extra))
        yield "subscription_two_roots", "direct_" + which, rank > 0, m
        m = mk()
        m["defs"][i]["sels"] = [{"k": "inline", "on": sroot, "dirs": [], "sels": m["defs"][i]["sels"] + [copy.deepcopy(extra)], "id": None}]
        yield "subscription_two_roots", "via_inline_fragment_" + which, True, m
        m = mk()
        m["defs"].append({"k": "frag", "name": "ZzSubRoots", "on": sroot, "dirs": [], "sels": m["defs"][i]["sels"] + [copy.deepcopy(extra)]})
        m["defs"][i]["sels"] = [{"k": "spread", "name": "ZzSubRoots", "dirs": [], "id": None}]
        yield "subscription_two_roots", "via_named_fragment_" + which, True, m

    # ---- site rewrites
    from tfv.gen import compatible

    value_sites = [x for x in S if x["kind"] == "value"]
    for s in S:
        k = s["kind"]
        if k == "value" and ops_for(s["where"]):
            # a variable whose first use is fine and whose later use is not allowed
            for s0 in value_sites:
                if s0 is s:
                    break
                if s0["where"] != s["where"]:
                    continue
                p0, p1 = s0["path"], s["path"]
                if p0 == p1[: len(p0)] or p1 == p0[: len(p1)]:
                    continue
                t0 = s0["type"]
                if compatible(t0, s["type"]):
                    continue
                if s["type"][0] == "NN" and t0[0] != "NN" and s["loc_default"] and compatible(t0, s["type"][1]):
                    continue
                m = mk()
                add_var(m, ops_for(s["where"]), "zzTwice", ty_str(t0))
                set_value(m, s0["path"], ["var", "zzTwice"])
                set_value(m, s["path"], ["var", "zzTwice"])
                nested = s["nested"]
                ncls = ("top" if nested == 0 else "nested%d" % min(nested, 2)) + "_" + s["owner"] + "_" + ("frag" if s["where"][0] == "frag" else "op")
                yield "variable_not_allowed", "second_use_of_variable@" + ncls, True, m
                break
        if k == "selset":
            pt = s["ptype"]
            for fname, cl in (("zzNope", "plain"), ("__zzNope", "dunder")):
                m = mk()
                get_path(m, s["path"]).append(leaf(fname))
                yield "unknown_field", "%s_%s_%s" % (cl, kind_of(schema, pt).lower(), wclass(s)), nontriv(s), m
            m = mk()
            get_path(m, s["path"]).append({"k": "spread", "name": "ZzUndefined", "dirs": [], "id": None})
            yield "undefined_spread", wclass(s), nontriv(s), m
            # impossible spreads
            pp = set(possible_types(schema, pt))
            disjoint = [n for n, t in schema["types"].items() if t["kind"] in ("OBJECT", "INTERFACE", "UNION") and not n.startswith("__") and not (pp & set(possible_types(schema, n)))]
            for x in disjoint[:2]:
                m = mk()
                get_path(m, s["path"]).append({"k": "inline", "on": x, "dirs": [], "sels": [leaf("__typename")], "id": None})
                yield "impossible_spread", "inline_" + wclass(s), nontriv(s), m
                m = mk()
                m["defs"].append({"k": "frag", "name": "ZzImp", "on": x, "dirs": [], "sels": [leaf("__typename")]})
                get_path(m, s["path"]).append({"k": "spread", "name": "ZzImp", "dirs": [], "id": None})
                yield "impossible_spread", "named_" + wclass(s), nontriv(s), m
            # fragments on unknown / non composite types
            noncomp = ["Int"] + [n for n, t in schema["types"].items() if t["kind"] in ("ENUM", "INPUT", "SCALAR")][:2]
            for on, cl in [("ZzNoType", "unknown_type")] + [(n, "non_composite_" + kind_of(schema, n).lower()) for n in noncomp]:
                rw = "fragment_on_unknown_type" if cl == "unknown_type" else "fragment_on_non_composite"
                m = mk()
                get_path(m, s["path"]).append({"k": "inline", "on": on, "dirs": [], "sels": [leaf("__typename")], "id": None})
                yield rw, "inline_" + cl + "_" + wclass(s), nontriv(s), m
                if s["depth"] == 0:
                    m = mk()
                    m["defs"].append({"k": "frag", "name": "ZzBadOn", "on": on, "dirs": [], "sels": [leaf("__typename")]})
                    get_path(m, s["path"]).append({"k": "spread", "name": "ZzBadOn", "dirs": [], "id": None})
                    yield rw, "named_" + cl + "_" + wclass(s), nontriv(s), m
            # cycles: only inside fragments
            if s["where"][0] == "frag":
                fname = s["where"][1]
                m = mk()
                get_path(m, s["path"]).append({"k": "spread", "name": fname, "dirs": [], "id": None})
                yield "fragment_cycle", "self_" + ("nested" if s["depth"] else "top"), True, m
                m = mk()
                get_path(m, s["path"]).append({"k": "inline", "on": None, "dirs": [], "sels": [{"k": "spread", "name": fname, "dirs": [], "id": None}], "id": None})
                yield "fragment_cycle", "self_through_inline", True, m
                m = mk()
                m["defs"].append({"k": "frag", "name": "ZzCyc", "on": pt, "dirs": [], "sels": [{"k": "spread", "name": fname, "dirs": [], "id": None}]})
                get_path(m, s["path"]).append({"k": "spread", "name": "ZzCyc", "dirs": [], "id": None})
                yield "fragment_cycle", "two_cycle_" + ("nested" if s["depth"] else "top"), True, m
        elif k == "field":
            node = get_path(doc, s["path"])
            fd = s["fdef"]
            nt = named(ty(fd["type"]))
            if node.get("sels") is None:
                m = mk()
                get_path(m, s["path"])["sels"] = [leaf("__typename")]
                yield "selection_on_leaf", wclass(s), nontriv(s), m
            else:
                m = mk()
                get_path(m, s["path"])["sels"] = None
                yield "no_selection_on_composite", kind_of(schema, nt).lower() + "_" + wclass(s), nontriv(s), m
            m = mk()
            get_path(m, s["path"])["args"].append(["zzUnknownArg", ["int", "1"]])
            meta = "meta_%s_" % kind_of(schema, s["ptype"]).lower() if node["name"] == "__typename" else ""
            yield "unknown_argument", "field_" + meta + wclass(s), nontriv(s), m
            if node.get("args"):
                m = mk()
                n2 = get_path(m, s["path"])
                n2["args"].append(copy.deepcopy(n2["args"][0]))
                yield "duplicate_argument", "field_" + wclass(s), nontriv(s), m
            given = {a for a, _ in node.get("args") or ()}
            for an, ad in (fd.get("args") or {}).items():
                if ty(ad["type"])[0] == "NN" and "default" not in ad and an in given:
                    m = mk()
                    n2 = get_path(m, s["path"])
                    n2["args"] = [a for a in n2["args"] if a[0] != an]
                    yield "missing_required_argument", "field_" + wclass(s), nontriv(s), m
        elif k == "dirs":
            node = get_path(doc, s["path"])
            loc = s["location"]
            m = mk()
            get_path(m, s["path"]).setdefault("dirs", []).append({"name": "zzNoSuchDirective", "args": []})
            _force_kw(get_path(m, s["path"]))
            yield "unknown_directive", loc.lower(), nontriv(s), m
            # a directive in a location it is not declared for
            bad = "deprecated" if loc not in ("FIELD_DEFINITION", "ENUM_VALUE") else None
            if bad:
                m = mk()
                get_path(m, s["path"]).setdefault("dirs", []).append({"name": bad, "args": []})
                _force_kw(get_path(m, s["path"]))
                yield "directive_wrong_location", "deprecated_on_" + loc.lower(), nontriv(s), m
            if loc in ("QUERY", "MUTATION", "SUBSCRIPTION", "FRAGMENT_DEFINITION"):
                m = mk()
                get_path(m, s["path"]).setdefault("dirs", []).append({"name": "skip", "args": [["if", ["bool", False]]]})
                _force_kw(get_path(m, s["path"]))
                yield "directive_wrong_location", "skip_on_" + loc.lower(), nontriv(s), m
            # repeated directive
            if loc in ("FIELD", "FRAGMENT_SPREAD", "INLINE_FRAGMENT"):
                existing = [d["name"] for d in node.get("dirs") or ()]
                m = mk()
                n2 = get_path(m, s["path"])
                if existing:
                    n2["dirs"].append(copy.deepcopy(n2["dirs"][0]))
                else:
                    n2["dirs"] = [{"name": "include", "args": [["if", ["bool", True]]]}, {"name": "include", "args": [["if", ["bool", True]]]}]
                yield "directive_repeated", loc.lower(), nontriv(s), m
                # directive args: unknown / missing required / duplicate
                m = mk()
                get_path(m, s["path"]).setdefault("dirs", [])
                if "skip" not in existing:
                    get_path(m, s["path"])["dirs"].append({"name": "skip", "args": []})
                    yield "missing_required_argument", "directive_" + wclass(s), nontriv(s), m
                m = mk()
                if "skip" not in existing:
                    get_path(m, s["path"]).setdefault("dirs", []).append({"name": "skip", "args": [["if", ["bool", False]], ["zzUnknown", ["int", "1"]]]})
                    yield "unknown_argument", "directive_" + wclass(s), nontriv(s), m
                m = mk()
                if "skip" not in existing:
                    get_path(m, s["path"]).setdefault("dirs", []).append({"name": "skip", "args": [["if", ["bool", False]], ["if", ["bool", False]]]})
                    yield "duplicate_argument", "directive_" + wclass(s), nontriv(s), m
        elif k == "value":
            t = s["type"]
            v = s["value"]
            nested = s["nested"]
            ncls = ("top" if nested == 0 else "nested%d" % min(nested, 2)) + "_" + s["owner"] + "_" + ("frag" if s["where"][0] == "frag" else "op")
            nt = nontriv(s, nested > 0 or s["owner"] == "directive")
            for cl, lit in wrong_literals(schema, t):
                m = mk()
                set_value(m, s["path"], lit)
                yield "ill_typed_literal", cl + "@" + ncls, nt, m
            if v[0] == "obj":
                tn = t[1] if t[0] == "NN" else t
                while tn[0] in ("L", "NN"):
                    tn = tn[1]
                if kind_of(schema, tn[1]) == "INPUT":
                    fdefs = schema["types"][tn[1]]["fields"]
                    if v[1]:
                        m = mk()
                        lit = copy.deepcopy(v)
                        lit[1].append(copy.deepcopy(lit[1][0]))
                        set_value(m, s["path"], lit)
                        yield "duplicate_input_field", ncls, nt, m
                    for fn, fd in fdefs.items():
                        if ty(fd["type"])[0] == "NN" and "default" not in fd and any(n == fn for n, _ in v[1]):
                            m = mk()
                            lit = copy.deepcopy(v)
                            lit[1] = [x for x in lit[1] if x[0] != fn]
                            set_value(m, s["path"], lit)
                            yield "ill_typed_literal", "missing_required_input_field@" + ncls, nt, m
            ops = ops_for(s["where"])
            if ops:
                m = mk()
                set_value(m, s["path"], ["var", "zzUndefinedVar"])
                yield "undefined_variable", ncls, nt, m
                for cl, vt in incompatible_var_type(schema, t):
                    if cl == "nullable_into_non_null" and s["loc_default"]:
                        continue  # allowed: the location's default applies
                    m = mk()
                    add_var(m, ops, "zzBadVar", vt)
                    set_value(m, s["path"], ["var", "zzBadVar"])
                    yield "variable_not_allowed", cl + "@" + ncls, nt, m


def _force_kw(node):
    if node.get("k") == "op":
        node["shorthand"] = False
        if node.get("name") is None:
            node["_force_keyword"] = True
