#define PY_SSIZE_T_CLEAN
#include <Python.h>
#include <stdlib.h>
#include <string.h>

struct GraphQLAstNode { char *json; };
static char *g_last_json = NULL;

static char *dup_cstr(const char *s) { size_t n = strlen(s) + 1; char *r = malloc(n); if (r) memcpy(r, s, n); return r; }

struct GraphQLAstNode *graphql_parse_string(const char *text, const char **error) {
    PyGILState_STATE gs = PyGILState_Ensure();
    struct GraphQLAstNode *node = NULL;
    const char *err = NULL;
    PyObject *mod = NULL, *res = NULL;
    *error = NULL;
    mod = PyImport_ImportModule("tfv.gqlparse_c");
    if (!mod) { err = "0.0: stand-in parser module not importable"; goto done; }
    res = PyObject_CallMethod(mod, "parse_c", "y", text);
    if (!res) { err = "0.0: stand-in parser crashed"; goto done; }
    {
        PyObject *ok = PyTuple_GetItem(res, 0);
        PyObject *payload = PyTuple_GetItem(res, 1);
        const char *bytes = payload ? PyBytes_AsString(payload) : NULL;
        if (!ok || !bytes) { err = "0.0: stand-in parser returned garbage"; goto done; }
        if (PyObject_IsTrue(ok)) {
            node = malloc(sizeof(*node));
            node->json = dup_cstr(bytes);
        } else {
            *error = dup_cstr(bytes);
        }
    }
done:
    if (err) { PyErr_Clear(); *error = dup_cstr(err); }
    Py_XDECREF(res); Py_XDECREF(mod);
    PyGILState_Release(gs);
    return node;
}

void graphql_error_free(const char *error) { free((void *)error); }

void graphql_node_free(struct GraphQLAstNode *node) { if (node) { free(node->json); free(node); } }

const char *graphql_ast_to_json(const struct GraphQLAstNode *node) {
    /* the real library hands ownership to the caller, who never frees it; keep one copy alive instead */
    free(g_last_json);
    g_last_json = dup_cstr(node->json);
    return g_last_json;
}
