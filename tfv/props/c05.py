"""C05 - field and directive arguments reach resolvers spec-coerced; literal = variable = default."""
import copy
import json
import os

from tfv import core
from tfv.core import Violation, run_async
from tfv.gen import gen_const_value, gen_schema, gen_split, literal_to_json
from tfv.impl import ArgHarness, Harness, clean_registry
from tfv.model import canon, kind_of, print_document, ty, ty_str, value_vars
from tfv.props import c04
from tfv.ref import ABSENT, RefInputError, coerce_argument_values, coerce_literal, coerce_variable_values

from tartiflette import Directive

ID = "C05"
LEVEL = "exploration"
WORKERS = {"quick": 8, "thorough": 16}
CASES = {"quick": 12000, "thorough": 300000}  # (type, value) pairs; each is supplied in every applicable way
BUDGET = {"quick": 50, "thorough": 540}
PAIRS_PER_ENGINE = 5
RULE = (
    "case = argument type (as C04, depth <= 3) x a value valid for it; the same value is supplied in every applicable way within one "
    "request: literal, whole variable, a variable at each position nested in the list/object literal, SDL default with the argument "
    "omitted, variable default, plus omitted-without-default, literal null, explicit null / absent variables and run-time null into a "
    "non-null argument; each at three positions: field argument, argument of a query-side FIELD directive (seen in on_field_execution) "
    "and argument of a schema-side directive. Oracle = reference CoerceArgumentValues per way + metamorphic equality (identical "
    "dictionaries incl. key presence and leaf python types); failing ways null only their own field with one located error; three ways "
    "per pair are also sent as the root field of a subscription, where the source generator and the per-event resolver must both "
    "receive that dictionary. SDL split and post-request in-place modification of delivered dictionaries as in C04. "
    "Distinct = SHA-1 of (type, value, ways); non-trivial = delivered by >= 2 different ways and the type is not a bare built-in scalar."
    " Way nested_unset_var: a nullable variable left unset at an input-object field of the literal (expected dictionary from the reference)."
)
ASSUMPTIONS = c04.ASSUMPTIONS + ["SDL-side default values use no block strings (tartiflette's SDL parser keeps block strings raw; see DESIGN)"]


def sub_positions(schema, t, lit, path=()):
    """yield (path, type, sub-literal) for positions strictly inside a list/object literal"""
    tn = t[1] if t[0] == "NN" else t
    if lit[0] == "list" and tn[0] == "L":
        for i, x in enumerate(lit[1]):
            yield path + (1, i), tn[1], x
            yield from sub_positions(schema, tn[1], x, path + (1, i))
    elif lit[0] == "obj" and tn[0] == "N" and kind_of(schema, tn[1]) == "INPUT":
        fdefs = schema["types"][tn[1]]["fields"]
        for i, (fn, fv) in enumerate(lit[1]):
            ft = ty(fdefs[fn]["type"])
            yield path + (1, i, 1), ft, fv
            yield from sub_positions(schema, ft, fv, path + (1, i, 1))
    elif tn[0] == "L" and lit[0] not in ("list", "null"):
        # single value standing for a list: its inside belongs to the item type
        yield from sub_positions(schema, tn[1], lit, path)


def replace_at(lit, path, new):
    lit = copy.deepcopy(lit)
    x = lit
    for k in path[:-1]:
        x = x[k]
    x[path[-1]] = new
    return lit


def build_engine(c):
    schema = gen_schema(c, {"max_objects": 1, "max_interfaces": 0, "max_unions": 0, "max_enums": 2, "max_inputs": 3, "max_scalars": 2, "mutation": False, "custom_roots": False, "args": False, "query_directive": False, "schema_directive": False})
    schema["types"] = {n: d for n, d in schema["types"].items() if d["kind"] in ("SCALAR", "ENUM", "INPUT")}
    types = c04.gen_types(c, schema)[:PAIRS_PER_ENGINE]
    pairs = []
    q = {"kind": "OBJECT", "fields": {"s": {"type": "String", "args": {}}}, "interfaces": []}
    schema["directives"] = {}
    for i, t in enumerate(types):
        v = gen_const_value(c, schema, ty(t), nullp=0, block=False)
        if v[0] == "null":
            v = gen_const_value(c, schema, ("NN", ty(t)) if ty(t)[0] != "NN" else ty(t), block=False)
        pairs.append((t, v))
        q["fields"]["e%d" % i] = {"type": "String", "args": {"a": {"type": t}}}
        q["fields"]["ed%d" % i] = {"type": "String", "args": {"a": {"type": t, "default": v}}}
        schema["directives"]["d%d" % i] = {"args": {"a": {"type": t}}, "locations": ["FIELD", "FIELD_DEFINITION"]}
        schema["directives"]["dd%d" % i] = {"args": {"a": {"type": t, "default": v}}, "locations": ["FIELD", "FIELD_DEFINITION"]}
        q["fields"]["sl%d" % i] = {"type": "String", "args": {}, "dirs": [{"name": "d%d" % i, "args": [["a", v]]}]}
        q["fields"]["sd%d" % i] = {"type": "String", "args": {}, "dirs": [{"name": "dd%d" % i, "args": []}]}
    schema["types"]["Query"] = q
    schema["roots"] = {"query": "Query"}
    schema["types"]["Subscription"] = {"kind": "OBJECT", "interfaces": [], "fields": {k: {"type": "String", "args": f["args"]} for k, f in q["fields"].items() if k.startswith("e")}}
    schema["roots"]["subscription"] = "Subscription"
    # input objects and enums may be spelled as definition + `extend` block; resolvers work on their arguments in place
    schema["plan"] = {"default_fields": [], "sdl_split": gen_split(c, schema, ("INPUT", "ENUM")), "scramble_args": True}
    h = rebuild({"schema": schema})
    return schema, pairs, h


def make_request(c, schema, i, t, v, other=None):
    """one document supplying v for argument type t in every applicable way"""
    T = ty(t)
    vars_, sels, provided, ways = [], [], {}, {}
    nid = [0]

    def field(alias, name, args=None, dirs=None):
        nid[0] += 1
        sels.append({"k": "field", "alias": alias, "name": name, "args": args or [], "dirs": dirs or [], "sels": None, "id": nid[0]})

    e, ed, d, dd = "e%d" % i, "ed%d" % i, "d%d" % i, "dd%d" % i
    jv = literal_to_json(schema, T, v)
    # same-value ways
    field("lit", e, [["a", v]]); ways["lit"] = "same"
    vars_.append({"name": "w", "type": t}); provided["w"] = jv
    field("var", e, [["a", ["var", "w"]]]); ways["var"] = "same"
    field("sdldef", ed); ways["sdldef"] = "same"
    field("sdldef_lit", ed, [["a", v]]); ways["sdldef_lit"] = "same"
    vars_.append({"name": "vd", "type": ty_str(T[1]) if T[0] == "NN" and False else t, "default": v})
    field("vardef", e, [["a", ["var", "vd"]]]); ways["vardef"] = "same"
    if T[0] == "NN":
        # nullable variable with a non-null default is allowed in a non-null position
        vars_.append({"name": "vdn", "type": ty_str(T[1]), "default": v})
        field("vardef_nullable", e, [["a", ["var", "vdn"]]]); ways["vardef_nullable"] = "same"
    # nested variables
    subs = list(sub_positions(schema, T, v))
    for k, (path, pt, sub) in enumerate(subs[:6]):
        if sub[0] == "null" and pt[0] == "NN":
            continue
        vn = "p%d" % k
        vt = pt
        if pt[0] != "NN" and sub[0] != "null" and c.maybe(40):
            vt = ("NN", pt)
        vars_.append({"name": vn, "type": ty_str(vt)})
        provided[vn] = literal_to_json(schema, pt, sub)
        field("nested%d" % k, e, [["a", replace_at(v, path, ["var", vn])]]); ways["nested%d" % k] = "same"
    # a nullable variable the request leaves unset, at an input-object field: the field then counts as omitted (its default
    # applies, or the key is absent); what the resolver gets is taken from the reference
    for k, (path, pt, sub) in enumerate(subs[:8]):
        if pt[0] != "NN" and len(path) >= 3 and path[-1] == 1 and isinstance(path[-2], int) and path[-3] == 1:
            holder = v
            for step in path[:-3]:
                holder = holder[step]
            if holder[0] == "obj":
                vn = "un%d" % k
                vars_.append({"name": vn, "type": ty_str(pt)})
                field("nested_unset_var", e, [["a", replace_at(v, path, ["var", vn])]]); ways["nested_unset_var"] = "ref"
                break
    # a nullable variable with a default is legal at a nested non-null position; a run-time null must fail the field
    for k, (path, pt, sub) in enumerate(subs[:8]):
        if pt[0] == "NN" and sub[0] != "null":
            vn = "rn%d" % k
            vars_.append({"name": vn, "type": ty_str(pt[1]), "default": sub})
            provided[vn] = None
            field("nested_runtime_null", e, [["a", replace_at(v, path, ["var", vn])]]); ways["nested_runtime_null"] = "field_error"
            vars_.append({"name": vn + "ok", "type": ty_str(pt[1]), "default": sub})
            field("nested_vardef", e, [["a", replace_at(v, path, ["var", vn + "ok"])]]); ways["nested_vardef"] = "same"
            break
    # directive positions
    field("dlit", "s", dirs=[{"name": d, "args": [["a", v]]}]); ways["dlit"] = "same_dir"
    field("dvar", "s", dirs=[{"name": d, "args": [["a", ["var", "w"]]]}]); ways["dvar"] = "same_dir"
    field("ddef", "s", dirs=[{"name": dd, "args": []}]); ways["ddef"] = "same_dir"
    if other is not None:
        # two different directives on one node: each hook must receive its own arguments
        j, tj, vj = other
        field("dpair", "s", dirs=[{"name": d, "args": [["a", v]]}, {"name": "d%d" % j, "args": [["a", vj]]}, {"name": dd, "args": []}]); ways["dpair"] = "same_dir"
    field("sdl_dlit", "sl%d" % i); ways["sdl_dlit"] = "same_sdl_dir"
    field("sdl_ddef", "sd%d" % i); ways["sdl_ddef"] = "same_sdl_dir"
    # other ways
    if T[0] != "NN":
        field("omitted", e); ways["omitted"] = "absent"
        field("null", e, [["a", ["null"]]]); ways["null"] = "null"
        vars_.append({"name": "absentv", "type": t})
        field("absent_var", e, [["a", ["var", "absentv"]]]); ways["absent_var"] = "absent"
        vars_.append({"name": "nullv", "type": t}); provided["nullv"] = None
        field("null_var", e, [["a", ["var", "nullv"]]]); ways["null_var"] = "null"
        field("absent_var_sdldef", ed, [["a", ["var", "absentv"]]]); ways["absent_var_sdldef"] = "same"
        field("null_var_sdldef", ed, [["a", ["var", "nullv"]]]); ways["null_var_sdldef"] = "null"
        vars_.append({"name": "nullvd", "type": t, "default": v}); provided["nullvd"] = None
        field("null_over_default", e, [["a", ["var", "nullvd"]]]); ways["null_over_default"] = "null"
    else:
        vars_.append({"name": "rtnull", "type": ty_str(T[1]), "default": v}); provided["rtnull"] = None
        field("runtime_null", e, [["a", ["var", "rtnull"]]]); ways["runtime_null"] = "field_error"
        vars_.append({"name": "absn", "type": ty_str(T[1])})
        field("absent_var_sdldef", ed, [["a", ["var", "absn"]]]); ways["absent_var_sdldef"] = "same"
        vars_.append({"name": "nulln", "type": ty_str(T[1])}); provided["nulln"] = None
        field("null_var_sdldef", ed, [["a", ["var", "nulln"]]]); ways["null_var_sdldef"] = "field_error"
    field("sib", "s"); ways["sib"] = "sibling"
    doc = {"defs": [{"k": "op", "type": "query", "name": "Q", "vars": vars_, "dirs": [], "sels": sels, "id": 999}]}
    return {"schema": schema, "doc": doc, "variables": provided, "type": t, "value": v, "ways": ways, "index": i, "other": list(other) if other else None}


def check(spec, h=None):
    schema = spec["schema"]
    if h is None:
        raise core.HarnessError("C05 replays rebuild the engine through replay()")
    h.reset_logs()
    h.dargs = []
    printed = print_document(spec["doc"])
    op = spec["doc"]["defs"][0]
    T = ty(spec["type"])
    i = spec["index"]

    async def go():
        return await h.engine.execute(printed.text, operation_name="Q", context=h.ctx_token, variables=copy.deepcopy(spec["variables"]))

    resp = run_async(go())
    h.scramble_live()
    ctx = "\ntype=%s value=%s\nquery: %s\nvariables: %s\nresponse: %s" % (spec["type"], spec["value"], printed.text, json.dumps(core.jsonable(spec["variables"])), str(resp)[:1500])
    values, bad = coerce_variable_values(schema, op, spec["variables"])
    if bad:
        raise core.HarnessError("C05 generator produced invalid variables: %r%s" % (bad, ctx))
    canonical = {"a": coerce_literal(schema, T, spec["value"], {})}
    got = {p[0]: args for p, co, nid, args, ok in h.calls}
    gotd = {}
    for alias, dname, dargs in h.dargs:
        gotd.setdefault(alias, {})[dname] = dargs
    data = resp.get("data")
    if data is None:
        raise Violation(spec, "whole request failed" + ctx, tag="request_failed")
    errs = resp.get("errors") or []
    err_paths = [tuple(e.get("path") or ()) for e in errs]
    qf = schema["types"]["Query"]["fields"]
    for s in op["sels"]:
        alias, way = s["alias"], spec["ways"][s["alias"]]
        if way in ("same", "absent", "null", "field_error", "ref"):
            try:
                exp = coerce_argument_values(schema, qf[s["name"]]["args"], s["args"], values)
                failed = False
            except RefInputError:
                exp, failed = None, True
            if failed != (way == "field_error"):
                raise core.HarnessError("reference disagrees with the generator about way %s%s" % (alias, ctx))
            if way == "same" and canon(core.jsonable(exp)) != canon(core.jsonable(canonical)):
                raise core.HarnessError("reference: way %s does not denote the same value: %r vs %r%s" % (alias, exp, canonical, ctx))
            if way == "field_error":
                if alias in got:
                    raise Violation(spec, "way %s: a null reached a non-null argument, yet the resolver ran with %r%s" % (alias, got[alias], ctx), tag="ran:" + alias)
                if data.get(alias, "MISSING") is not None:
                    raise Violation(spec, "way %s: the field should be null%s" % (alias, ctx), tag="notnull:" + alias)
                mine = [e for e in errs if tuple(e.get("path") or ()) == (alias,)]
                if len(mine) != 1:
                    raise Violation(spec, "way %s: expected exactly one error for the field, got %d%s" % (alias, len(mine), ctx), tag="errors:" + alias)
                for loc in mine[0].get("locations") or [{}]:
                    if not printed.inside(s["id"], loc.get("line", 0), loc.get("column", 0)):
                        raise Violation(spec, "way %s: error location %r is outside the field%s" % (alias, loc, ctx), tag="loc:" + alias)
                continue
            if alias not in got:
                raise Violation(spec, "way %s: resolver did not run (expected arguments %r)%s" % (alias, exp, ctx), tag="norun:" + alias)
            if canon(core.jsonable(got[alias])) != canon(core.jsonable(exp)) or not c04.same_types(got[alias], exp):
                raise Violation(spec, "way %s: resolver received %r, the specification prescribes %r%s" % (alias, got[alias], exp, ctx), tag="args:" + alias)
            if (alias,) in err_paths:
                raise Violation(spec, "way %s: unexpected error%s" % (alias, ctx), tag="err:" + alias)
        elif way in ("same_dir", "same_sdl_dir"):
            want = {}
            for dnode in s["dirs"] or qf[s["name"]].get("dirs") or ():
                dn = dnode["name"]
                if dn in ("d%d" % i, "dd%d" % i):
                    want[dn] = canonical
                elif spec.get("other") and dn == "d%d" % spec["other"][0]:
                    want[dn] = {"a": coerce_literal(schema, ty(spec["other"][1]), spec["other"][2], {})}
            for dn, exp_d in want.items():
                got_d = (gotd.get(alias) or {}).get(dn)
                if got_d is None:
                    raise Violation(spec, "way %s: hook of @%s did not run%s" % (alias, dn, ctx), tag="nohook:" + alias)
                if canon(core.jsonable(got_d)) != canon(core.jsonable(exp_d)) or not c04.same_types(got_d, exp_d):
                    raise Violation(spec, "way %s: hook of @%s received %r, the specification prescribes %r%s" % (alias, dn, got_d, exp_d, ctx), tag="dargs:" + alias)
            if data.get(alias) != "ok":
                raise Violation(spec, "way %s: field did not resolve%s" % (alias, ctx), tag="dres:" + alias)
        elif way == "sibling":
            if data.get(alias) != "ok" or (alias,) in err_paths:
                raise Violation(spec, "sibling field affected%s" % ctx, tag="sibling")
    # the same field as the root of a subscription: the source generator and the per-event resolver both get the dictionary
    for alias in spec.get("sub_ways") or ():
        s = [x for x in op["sels"] if x["alias"] == alias][0]
        used = []
        for _, av in s["args"]:
            value_vars(av, used)
        sdoc = {"defs": [{"k": "op", "type": "subscription", "name": "S", "vars": [vd for vd in op["vars"] if vd["name"] in used], "dirs": [], "sels": [s], "id": 999}]}
        stext = print_document(sdoc).text
        svars = {k: v for k, v in spec["variables"].items() if k in used}
        exp = coerce_argument_values(schema, qf[s["name"]]["args"], s["args"], values)
        h.reset_logs()
        h.sargs = []

        async def go_sub():
            return [r async for r in h.engine.subscribe(stext, operation_name="S", context=h.ctx_token, variables=copy.deepcopy(svars))]

        out = run_async(go_sub())
        h.scramble_live()
        sctx = "\nsubscription: %s\nvariables: %s\nresponses: %s" % (stext, json.dumps(core.jsonable(svars)), str(out)[:800])
        if out != [{"data": {alias: "ok"}}]:
            raise Violation(spec, "way %s as a subscription root: expected one event answered with 'ok'%s" % (alias, sctx), tag="sub_resp:" + alias)
        res_args = [args for p, co, nid, args, ok in h.calls]
        for who, seen in (("source generator", [a for _, a in h.sargs]), ("resolver", res_args)):
            if len(seen) != 1:
                raise Violation(spec, "way %s as a subscription root: %s ran %d times%s" % (alias, who, len(seen), sctx), tag="sub_runs:" + alias)
            if canon(core.jsonable(seen[0])) != canon(core.jsonable(exp)) or not c04.same_types(seen[0], exp):
                raise Violation(spec, "way %s as a subscription root: the %s received %r, the specification prescribes %r%s" % (alias, who, seen[0], exp, sctx), tag="sub_args:" + alias)
    return len([w for w in spec["ways"].values() if w.startswith("same")])


def case(c, stats):
    schema, pairs, h = build_engine(c)
    for i, (t, v) in enumerate(pairs):
        j = (i + 1) % len(pairs)
        spec = make_request(c, schema, i, t, v, other=(j, pairs[j][0], pairs[j][1]) if j != i else None)
        spec["pairs"] = pairs
        eligible = sorted(a for a, w in spec["ways"].items() if w in ("same", "absent", "null"))
        spec["sub_ways"] = sorted({c.choice(eligible) for _ in range(3)})
        nsame = check(spec, h)
        T = ty(t)
        bare = T[0] == "N" and kind_of(schema, T[1]) == "SCALAR" and T[1] in ("Int", "Float", "String", "Boolean", "ID")
        labels = ["way:" + w for w in spec["ways"]] + ["sub:" + w for w in spec["sub_ways"]] + ["named:" + kind_of(schema, __import__("tfv.model", fromlist=["named"]).named(T))]
        stats.case({"t": t, "v": v, "w": sorted(spec["ways"]), "s": schema["types"]}, nsame >= 2 and not bare, labels,
                   {"type": t, "value": v, "query": print_document(spec["doc"]).text, "variables": spec["variables"]})


def run_worker(seed, tier, index, nworkers):
    stats = core.Stats(max_samples=3)
    scale = float(os.environ.get("TFV_SCALE", "1"))
    n = max(1, int(CASES[tier] * scale / nworkers / PAIRS_PER_ENGINE))
    v = core.run_property(case, seed, n, stats, budget_s=BUDGET[tier], shrink=True)
    out = stats.export()
    out["violations"] = [{"spec": core.jsonable(v.spec), "message": v.message}] if v else []
    return out


def rebuild(spec):
    """engine for (schema, plan): also used to replay a spec"""
    schema = spec["schema"]
    clean_registry()
    h = ArgHarness(schema, schema.get("plan") or {"default_fields": []}, None)
    h.serve = lambda rs, parent, obj, field, args, path: "ok"
    h.dargs = []
    h.sargs = []

    def mk(name):
        class D:
            async def on_field_execution(self, directive_args, next_resolver, parent, args, ctx, info):
                h.dargs.append((info.path.as_list()[0], name, copy.deepcopy(directive_args)))
                return await next_resolver(parent, args, ctx, info)
        return D

    h.directive_factory = mk
    run_async(h.build())
    return h


def replay(spec):
    spec = dict(spec)
    spec["variables"] = c04.core_unjson(spec["variables"])
    check(spec, rebuild(spec))


TECHNIQUE = "property-based testing (Hypothesis): metamorphic relation (literal = variable = nested variable = default) plus reference CoerceArgumentValues, at field, query-directive and schema-directive argument positions"
LEVEL_TEXT = (
    "For generated (type, value) pairs the same value is supplied in every way the language offers inside one request and at three "
    "kinds of argument position; every delivered dictionary must equal the reference's (and therefore each other), run-time nulls "
    "for non-null arguments must fail exactly their field. Exploration with stated bounds."
)
LEVEL_NOTE = "trusts: tfv/ref.py coerce_literal/coerce_argument_values; harness-supplied scalar codecs; SDL-side block strings excluded (documented deviation)"
