"""C13 - directive hooks wrap their target exactly once, nested in declaration order."""
import copy
import json
import os

from tfv import core
from tfv.core import Violation, run_async
from tfv.impl import clean_registry

from tartiflette import Directive, Resolver, Scalar, create_engine
from tartiflette.constants import UNDEFINED_VALUE
from tartiflette.language.ast import StringValueNode

ID = "C13"
LEVEL = "exploration"
WORKERS = {"quick": 8, "thorough": 16}
CASES = {"quick": 22000, "thorough": 600000}  # requests
BUDGET = {"quick": 50, "thorough": 560}
REQUESTS_PER_ENGINE = 30
RULE = (
    "case = a schema family covering every attachable location (scalar, enum, enum value, object, interface, union, input object, input "
    "field, argument, field definition) decorated with 0-3 tagging directives per element (drawn; tags identify site and position) x "
    "requests drawn from a menu of field uses with inputs supplied as literal, whole variable, variable nested in an object / list "
    "literal, or omitted with a default, and 0-2 query-side directives per field node (also on two merged nodes of one response key). "
    "Every hook appends its tag to the value it passes on, so the arguments a resolver receives and the strings / trails in `data` spell "
    "the composition. Oracle = reference composition (type-level input hooks -> input-field -> input-object -> argument -> field hooks, "
    "query-side outside schema-side, first declared outermost -> resolver -> output hooks), compared exactly for strings and trails, plus "
    "exact per-(directive instance, hook) invocation counts, plus equality of the delivered values across the literal / variable / "
    "nested-variable spellings; in half of the worlds the three directives are instances of one class that know their name, and a hook "
    "receiving another directive's usage is a violation; in 40% of the worlds the built-in String carries an output directive "
    "(`extend scalar String @ts(n:k)`) that must govern the String leaves of an introspection selection. Distinct = SHA-1 of (placement, request); non-trivial = some element carries >= 2 directives and the "
    "request involves >= 3 stages."
    " Half of the worlds complete lists sequentially; field bes: [E!] resolves to [A, null, B]: the list is nulled and reported, and every item - also after the null - went through its hooks exactly once."
    " Input objects carry explicit nulls at In.s and among the items of In.l (15-20%): a nested null is governed by the hooks of its type and input field on the literal and the variable route alike."
)
ASSUMPTIONS = ["relative order of enum-value vs enum-type hooks is not asserted (statement leaves it open); each must run exactly once, each group in declaration order"]
DNAMES = ["t1", "t2", "t3"]
ALL_LOC = "SCALAR | ENUM | ENUM_VALUE | OBJECT | INTERFACE | UNION | INPUT_OBJECT | INPUT_FIELD_DEFINITION | ARGUMENT_DEFINITION | FIELD_DEFINITION | FIELD"
SITES = ["S", "E", "E.A", "E.B", "In", "In.s", "In.e", "In.n", "In.l", "In2", "In2.s", "I", "T", "U", "T.s", "T.s.x", "T.e", "I.s", "I.s.x",
         "Query.f", "Query.f.a", "Query.f.o", "Query.f.e", "Query.f.l", "Query.t", "Query.i", "Query.u", "Query.es", "Query.ts", "Query.g", "Query.g.a", "Query.nnq", "Query.nne", "Query.bes",
         "String"]  # the built-in scalar, decorated through `extend scalar String @...`: governs the String leaves of introspection
ENUM_VALUES = ("A", "B")


def gen_placement(c):
    pl = {}
    for s in SITES:
        n = c.weighted([(4, 0), (3, 1), (2, 2), (1, 3)])
        names = c.shuffle(DNAMES)[:n]
        pl[s] = [[d, "%s#%d" % (s, k)] for k, d in enumerate(names)]
    # an interface field and its implementation must agree textually on arguments: same directives
    pl["I.s.x"] = []
    pl["I.s"] = []
    pl["String"] = [["ts", "String#%d" % c.int(0, 9)]] if c.maybe(40) else []
    pl["$impl"] = c.choice(["class", "instances"])
    pl["$seq_lists"] = c.maybe(50)
    return pl


def d(pl, site):
    return "".join(' @%s(tag: "%s")' % (n, t) for n, t in pl[site])


def sdl(pl):
    return """
directive @t1(tag: String) on %(loc)s
directive @t2(tag: String) on %(loc)s
directive @t3(tag: String) on %(loc)s
scalar S%(S)s
enum E%(E)s { A%(E.A)s B%(E.B)s }
input In2%(In2)s { s: S%(In2.s)s }
input In%(In)s { s: S%(In.s)s e: E%(In.e)s n: In2%(In.n)s l: [S]%(In.l)s }
interface I%(I)s { s(x: S): S }
type T implements I%(T)s { s(x: S%(T.s.x)s): S%(T.s)s e: E%(T.e)s }
union U%(U)s = T
type Query {
  f(a: S%(Query.f.a)s, o: In%(Query.f.o)s, e: E%(Query.f.e)s, l: [S]%(Query.f.l)s): S%(Query.f)s
  g(a: S = "dflt"%(Query.g.a)s): S%(Query.g)s
  t: T%(Query.t)s
  i: I%(Query.i)s
  u: U%(Query.u)s
  es: [E]%(Query.es)s
  bes: [E!]%(Query.bes)s
  ts: [T]%(Query.ts)s
  nnq: S!%(Query.nnq)s
  nne: E!%(Query.nne)s
}
%(StringExt)s
""" % dict({k: d(pl, k) for k in SITES if k in pl}, loc=ALL_LOC,
           # (an output-only directive with an Int argument: the tagging directives take a String argument themselves)
           StringExt=("directive @ts(n: Int) on SCALAR\nextend scalar String @ts(n: %s)" % pl["String"][0][1].split("#")[1]) if pl.get("String") else "")


# ------------------------------------------------------------------ harness


def tag_value(v, tag):
    if isinstance(v, str):
        return v + "|" + tag
    if isinstance(v, dict):
        out = dict(v)
        out["_trail"] = v.get("_trail", "") + "|" + tag
        return out
    if isinstance(v, list):
        return [tag_value(x, tag) for x in v]
    return v


def tag_output(v, tag):
    if isinstance(v, str):
        return v if v in ENUM_VALUES else v + "|" + tag
    if isinstance(v, dict):
        out = dict(v)
        out["_trail"] = v.get("_trail", "") + "|" + tag
        return out
    if isinstance(v, list):
        return [tag_output(x, tag) for x in v]
    return v


class World:
    def __init__(self, pl):
        self.pl = pl
        self.log = []
        self.calls = {}
        self.owner, self.misrouted = {}, []
        clean_registry()
        name = "c13"
        W = self

        class Tagger:
            """one class; with placement["$impl"] == "instances" every directive name gets its own instance, which
            knows its name and notes any usage of *another* directive routed to it"""

            def __init__(self, dname=None):
                self.dname = dname

            def seen(self, tag):
                owner = W.owner.get(tag)
                if self.dname is not None and owner is not None and owner != self.dname:
                    W.misrouted.append((tag, owner, self.dname))

            async def on_post_input_coercion(self, da, nxt, parent_node, value, ctx):
                self.seen(da["tag"])
                W.log.append(("in", da["tag"]))
                return await nxt(parent_node, tag_value(value, da["tag"]), ctx)

            async def on_argument_execution(self, da, nxt, parent_node, argument_definition_node, argument_node, value, ctx):
                self.seen(da["tag"])
                W.log.append(("arg", da["tag"]))
                return await nxt(parent_node, argument_definition_node, argument_node, tag_value(value, da["tag"]), ctx)

            async def on_field_execution(self, da, nxt, parent, args, ctx, info):
                self.seen(da["tag"])
                W.log.append(("field>", da["tag"]))
                r = await nxt(parent, args, ctx, info)
                W.log.append(("field<", da["tag"]))
                return tag_output(r, da["tag"])

            async def on_pre_output_coercion(self, da, nxt, value, ctx, info):
                self.seen(da["tag"])
                W.log.append(("out", da["tag"]))
                return await nxt(tag_output(value, da["tag"]), ctx, info)

        for n in DNAMES:
            Directive(n, schema_name=name)(Tagger(n) if pl.get("$impl") == "instances" else Tagger)

        class OutTagger:
            async def on_pre_output_coercion(self, da, nxt, value, ctx, info):
                tag = "String#%d" % da["n"]
                W.log.append(("out", tag))
                return await nxt(tag_output(value, tag), ctx, info)

        if pl.get("String"):
            Directive("ts", schema_name=name)(OutTagger)

        @Scalar("S", schema_name=name)
        class S:
            def coerce_output(self, v):
                if not isinstance(v, str):
                    raise TypeError("S")
                return v

            def coerce_input(self, v):
                if not isinstance(v, str):
                    raise TypeError("S")
                return v

            def parse_literal(self, ast):
                return ast.value if isinstance(ast, StringValueNode) else UNDEFINED_VALUE

        def rec(key):
            async def r(parent, args, ctx, info):
                W.calls[info.path.as_list()[0] if key.startswith("Query.") else "/".join(map(str, info.path.as_list()))] = copy.deepcopy(args)
                return W.answer(key, parent, info)
            return r

        for key in ("Query.f", "Query.g", "Query.t", "Query.i", "Query.u", "Query.es", "Query.ts", "T.s", "T.e", "Query.nnq", "Query.nne", "Query.bes"):
            Resolver(key, schema_name=name)(rec(key))
        # (half of the worlds complete lists item after item instead of concurrently)
        self.engine = run_async(create_engine(sdl(pl), schema_name=name, coerce_list_concurrently=not pl.get("$seq_lists")))

    def answer(self, key, parent, info):
        if key in ("Query.f", "Query.g"):
            return "r"
        if key in ("Query.t", "Query.i", "Query.u"):
            return {"_typename": "T", "id": key}
        if key == "Query.ts":
            return [{"_typename": "T", "id": "ts0"}, {"_typename": "T", "id": "ts1"}]
        if key == "Query.es":
            return ["A", "B", "A"]
        if key == "Query.bes":
            return ["A", None, "B"]  # a null in the middle of a list of non-null items: the items after it are still governed by their hooks
        if key == "T.s":
            return "s(%s)" % (parent.get("_trail", "") if isinstance(parent, dict) else "?")
        if key == "T.e":
            return "B"
        if key in ("Query.nnq", "Query.nne"):
            return None  # null at a non-null position: the output hooks of the type still govern this (null) value
        raise AssertionError(key)


# ------------------------------------------------------------------ reference composition


class Model:
    def __init__(self, pl):
        self.pl = pl
        self.counts = {}

    def tags(self, site):
        return [t for _, t in self.pl[site]]

    def hit(self, hook, tag):
        self.counts[(hook, tag)] = self.counts.get((hook, tag), 0) + 1

    def apply_in(self, v, site, hook="in"):
        for t in self.tags(site):
            self.hit(hook, t)
            v = tag_value(v, t)
        return v

    def in_S(self, raw):
        return None if raw is None else self.apply_in(raw, "S")

    def in_S_nested(self, raw):
        # a null nested in an input object / list is a value like any other: the hooks of its type govern it (both routes)
        return self.apply_in(raw, "S")

    def in_E(self, raw):
        if raw is None:
            return None
        return EnumTrail(raw, self.tags("E." + raw), self.tags("E"), self)

    def in_In2(self, raw):
        if raw is None:
            return None
        out = {}
        if "s" in raw:
            out["s"] = self.apply_in(self.in_S(raw["s"]), "In2.s") if raw["s"] is not None else None
        return self.apply_in(out, "In2")

    def in_In(self, raw):
        if raw is None:
            return None
        out = {}
        if "s" in raw:
            out["s"] = self.apply_in(self.in_S_nested(raw["s"]), "In.s")
        if "e" in raw:
            v = self.in_E(raw["e"])
            out["e"] = v.extend(self.apply_tags_list("In.e")) if v is not None else None
        if "n" in raw:
            out["n"] = self.apply_in(self.in_In2(raw["n"]), "In.n") if raw["n"] is not None else None
        if "l" in raw:
            out["l"] = self.apply_in([self.in_S_nested(x) for x in raw["l"]], "In.l") if raw["l"] is not None else None
        return self.apply_in(out, "In")

    def apply_tags_list(self, site, hook="in"):
        ts = self.tags(site)
        for t in ts:
            self.hit(hook, t)
        return ts

    def arg(self, site, v):
        if v is None:
            return None
        if isinstance(v, EnumTrail):
            return v.extend(self.apply_tags_list(site, "arg"))
        return self.apply_in(v, site, "arg")

    # ---- outputs
    def field_exit(self, r, qtags, ftags):
        for t in qtags:
            self.hit("field>", t)
        for t in ftags:
            self.hit("field>", t)
        for t in reversed(ftags):
            r = tag_output(r, t)
        for t in reversed(qtags):
            r = tag_output(r, t)
        return r

    def out(self, v, site):
        for t in self.tags(site):
            self.hit("out", t)
            v = tag_output(v, t)
        return v


class EnumTrail:
    """an enum input value with the tags of value-level and type-level hooks (their relative order is left open)"""

    def __init__(self, raw, value_tags, type_tags, model):
        self.raw, self.value_tags, self.type_tags, self.after = raw, list(value_tags), list(type_tags), []
        for t in value_tags + type_tags:
            model.hit("in", t)

    def extend(self, tags):
        self.after += list(tags)
        return self

    def matches(self, got):
        if not isinstance(got, str):
            return False
        parts = got.split("|")
        if parts[0] != self.raw:
            return False
        trail = parts[1:]
        n = len(self.value_tags) + len(self.type_tags)
        head, tail = trail[:n], trail[n:]
        return [t for t in head if t in self.value_tags] == self.value_tags and [t for t in head if t in self.type_tags] == self.type_tags and len(head) == n and tail == self.after


def equal(exp, got):
    if isinstance(exp, EnumTrail):
        return exp.matches(got)
    if isinstance(exp, dict):
        return isinstance(got, dict) and set(exp) == set(got) and all(equal(exp[k], got[k]) for k in exp)
    if isinstance(exp, list):
        return isinstance(got, list) and len(exp) == len(got) and all(equal(a, b) for a, b in zip(exp, got))
    return exp == got and type(exp) is type(got)


def show(exp):
    if isinstance(exp, EnumTrail):
        return "%s|{%s}+{%s}|%s" % (exp.raw, ",".join(exp.value_tags), ",".join(exp.type_tags), "|".join(exp.after))
    if isinstance(exp, dict):
        return {k: show(v) for k, v in exp.items()}
    if isinstance(exp, list):
        return [show(x) for x in exp]
    return exp


# ------------------------------------------------------------------ requests


def lit(v):
    """GraphQL literal of a raw python input (enums are bare names)"""
    if v is None:
        return "null"
    if isinstance(v, str):
        return v if v in ENUM_VALUES else json.dumps(v)
    if isinstance(v, list):
        return "[" + ", ".join(lit(x) for x in v) + "]"
    return "{" + ", ".join("%s: %s" % (k, lit(x)) for k, x in v.items()) + "}"


def gen_in(c, uniq):
    raw = {}
    if c.maybe(70):
        raw["s"] = uniq("s") if c.maybe(85) else None  # an explicit null nested in the object (literal `s: null` / JSON null)
    if c.maybe(50):
        raw["e"] = c.choice(ENUM_VALUES)
    if c.maybe(40):
        raw["n"] = {"s": uniq("n")} if c.maybe(80) else {}
    if c.maybe(40):
        raw["l"] = [uniq("l") if c.maybe(80) else None for _ in range(c.int(0, 2))]
    return raw


def gen_request(c):
    """-> spec {fields: [...], variables} ; each field use = dict(alias, name, args raw, how, qdirs)"""
    counter = [0]

    def uniq(p):
        counter[0] += 1
        return "%s%d" % (p, counter[0])

    uses = []
    vars_, var_defs = {}, []

    def qdirs():
        n = c.weighted([(5, 0), (3, 1), (2, 2)])
        return [[dn, "q%d.%d" % (len(uses), k)] for k, dn in enumerate(c.shuffle(DNAMES)[:n])]

    if c.maybe(6):
        name = c.choice(["nnq", "nne"])
        return {"uses": [{"alias": "k0", "name": name, "qdirs": qdirs(), "args": {}, "how": {}, "merged_qdirs": []}]}
    for _ in range(c.int(1, 4)):
        kind = c.weighted([(5, "f"), (2, "g"), (2, "t"), (1, "i"), (1, "u"), (1, "es"), (1, "ts"), (1, "intro"), (1, "bes")])
        alias = "k%d" % len(uses)
        u = {"alias": alias, "name": kind, "qdirs": qdirs() if kind != "intro" else [], "args": {}, "how": {}, "merged_qdirs": []}
        if kind == "f":
            raw = {}
            if c.maybe(60):
                raw["a"] = uniq("a")
            if c.maybe(60):
                raw["o"] = gen_in(c, uniq)
            if c.maybe(40):
                raw["e"] = c.choice(ENUM_VALUES)
            if c.maybe(40):
                raw["l"] = [uniq("l") for _ in range(c.int(0, 3))]
            u["args"] = raw
            for an in raw:
                u["how"][an] = c.weighted([(4, "literal"), (3, "variable"), (3, "nested")])
            if c.maybe(20):
                u["merged_qdirs"] = [[dn, "m%d.%d" % (len(uses), k)] for k, dn in enumerate(c.shuffle(DNAMES)[: c.int(1, 2)])]
        elif kind == "g":
            if c.maybe(50):
                u["args"] = {"a": uniq("ga")}
                u["how"]["a"] = c.choice(["literal", "variable"])
        uses.append(u)
    return {"uses": uses}


ARG_TYPES = {"a": "S", "o": "In", "e": "E", "l": "[S]"}


def render(spec):
    """-> (query text, variables)"""
    parts, var_defs, variables = [], [], {}
    nv = [0]

    def newvar(t, v):
        nv[0] += 1
        n = "v%d" % nv[0]
        var_defs.append("$%s: %s" % (n, t))
        variables[n] = v
        return "$" + n

    def nested(an, v):
        # replace one inner position by a variable; falls back to whole variable
        if an == "o" and isinstance(v, dict):
            if "s" in v and v["s"] is not None:
                inner = dict(v)
                ph = newvar("S", v["s"])
                return "{" + ", ".join("%s: %s" % (k, ph if k == "s" else lit(x)) for k, x in inner.items()) + "}"
            if "n" in v and v["n"]:
                ph = newvar("In2", v["n"])
                return "{" + ", ".join("%s: %s" % (k, ph if k == "n" else lit(x)) for k, x in v.items()) + "}"
            if "e" in v:
                ph = newvar("E", v["e"])
                return "{" + ", ".join("%s: %s" % (k, ph if k == "e" else lit(x)) for k, x in v.items()) + "}"
        if an == "l" and v:
            ph = newvar("S", v[0])
            return "[" + ", ".join([ph] + [lit(x) for x in v[1:]]) + "]"
        return newvar(ARG_TYPES[an], v)

    for u in spec["uses"]:
        if u["name"] == "intro":
            parts.append("%s: __schema { queryType { name } }" % u["alias"])
            continue
        args = []
        for an, v in u["args"].items():
            how = u["how"].get(an, "literal")
            if how == "literal":
                args.append("%s: %s" % (an, lit(v)))
            elif how == "variable":
                args.append("%s: %s" % (an, newvar(ARG_TYPES[an], v)))
            else:
                args.append("%s: %s" % (an, nested(an, v)))
        argtxt = "(" + ", ".join(args) + ")" if args else ""
        dirs = "".join(' @%s(tag: "%s")' % (n, t) for n, t in u["qdirs"])
        sub = ""
        if u["name"] in ("t", "i", "u", "ts"):
            inner = "s e" if u["name"] != "u" else "... on T { s e }"
            if u["name"] == "i":
                inner = "s ... on T { e }"
            sub = " { %s }" % inner
        parts.append("%s: %s%s%s%s" % (u["alias"], u["name"], argtxt, dirs, sub))
        if u["merged_qdirs"]:
            mdirs = "".join(' @%s(tag: "%s")' % (n, t) for n, t in u["merged_qdirs"])
            parts.append("%s: %s%s%s%s" % (u["alias"], u["name"], argtxt, mdirs, sub))
    head = "query Q(%s) " % ", ".join(var_defs) if var_defs else "query Q "
    return head + "{\n  " + "\n  ".join(parts) + "\n}", variables


def expectation(pl, spec):
    m = Model(pl)
    exp_args, exp_data = {}, {}
    for u in spec["uses"]:
        name = u["name"]
        qtags = [t for _, t in u["qdirs"]] + [t for _, t in u["merged_qdirs"]]
        if name == "f":
            a = {}
            raw = u["args"]
            if "a" in raw:
                a["a"] = m.arg("Query.f.a", m.in_S(raw["a"]))
            if "o" in raw:
                a["o"] = m.arg("Query.f.o", m.in_In(raw["o"]))
            if "e" in raw:
                a["e"] = m.arg("Query.f.e", m.in_E(raw["e"]))
            if "l" in raw:
                a["l"] = m.arg("Query.f.l", [m.in_S(x) for x in raw["l"]])
            exp_args[u["alias"]] = a
            exp_data[u["alias"]] = m.out(m.field_exit("r", qtags, m.tags("Query.f")), "S")
        elif name == "g":
            raw = u["args"].get("a", "dflt")
            exp_args[u["alias"]] = {"a": m.arg("Query.g.a", m.in_S(raw))}
            exp_data[u["alias"]] = m.out(m.field_exit("r", qtags, m.tags("Query.g")), "S")
        elif name in ("t", "i", "u", "ts"):
            site = "Query." + name
            items = [{"_typename": "T", "id": site}] if name != "ts" else [{"_typename": "T", "id": "ts0"}, {"_typename": "T", "id": "ts1"}]
            res = items if name == "ts" else items[0]
            res = m.field_exit(res, qtags, m.tags(site))
            outs = []
            for obj in (res if name == "ts" else [res]):
                if name in ("i", "u"):
                    obj = m.out(obj, "I" if name == "i" else "U")
                obj = m.out(obj, "T")
                s = m.out(m.field_exit("s(%s)" % obj.get("_trail", ""), [], m.tags("T.s")), "S")
                for t in m.tags("E"):
                    m.hit("out", t)
                for t in m.tags("E.B"):
                    m.hit("out", t)
                for t in m.tags("T.e"):
                    m.hit("field>", t)
                outs.append({"s": s, "e": "B"})
            exp_args[u["alias"]] = {}
            exp_data[u["alias"]] = outs if name == "ts" else outs[0]
        elif name in ("nnq", "nne"):
            m.field_exit(None, qtags, m.tags("Query." + name))
            for t in m.tags("S" if name == "nnq" else "E"):
                m.hit("out", t)
            exp_args[u["alias"]] = {}
            exp_data[u["alias"]] = None
        elif name == "intro":
            exp_args[u["alias"]] = None
            exp_data[u["alias"]] = {"queryType": {"name": m.out("Query", "String")}}
        elif name == "bes":
            for t in m.tags("Query.bes"):
                m.hit("field>", t)
            for t in qtags:
                m.hit("field>", t)
            for v in ["A", None, "B"]:
                for t in m.tags("E") + (m.tags("E." + v) if v else []):
                    m.hit("out", t)
            exp_args[u["alias"]] = {}
            exp_data[u["alias"]] = None
        elif name == "es":
            for t in m.tags("Query.es"):
                m.hit("field>", t)
            for t in qtags:
                m.hit("field>", t)
            for v in ["A", "B", "A"]:
                for t in m.tags("E") + m.tags("E." + v):
                    m.hit("out", t)
            exp_args[u["alias"]] = {}
            exp_data[u["alias"]] = ["A", "B", "A"]
    return exp_args, exp_data, m.counts


def owners(x, acc=None):
    """tag -> directive name, from every [directive name, tag] pair of the placement and the request"""
    acc = {} if acc is None else acc
    if isinstance(x, (list, tuple)):
        if len(x) == 2 and x[0] in DNAMES and isinstance(x[1], str):
            acc[x[1]] = x[0]
        else:
            for y in x:
                owners(y, acc)
    elif isinstance(x, dict):
        for y in x.values():
            owners(y, acc)
    return acc


def check(spec, world=None):
    pl = spec["placement"]
    if world is None:
        world = World(pl)
    world.log, world.calls = [], {}
    world.owner, world.misrouted = owners(spec), []
    text, variables = render(spec)
    resp = run_async(world.engine.execute(text, variables=variables))
    exp_args, exp_data, exp_counts = expectation(pl, spec)
    ctx = "\nSDL:%s\nquery:\n%s\nvariables=%r\nresponse=%s\nresolver args=%r\nhook log=%r" % (sdl(pl), text, variables, str(resp)[:1500], world.calls, world.log[:80])
    if world.misrouted:
        raise Violation(spec, "a usage of one directive ran the hooks of another directive's implementation (tag, its directive, the implementation that ran): %r%s" % (world.misrouted[:4], ctx), tag="misrouted")
    null_root = any(u["name"] in ("nnq", "nne") for u in spec["uses"])
    if null_root:
        if resp.get("data") is not None or not resp.get("errors"):
            raise Violation(spec, "null at a non-null root field must null data and report an error" + ctx, tag="nn")
    elif any(u["name"] == "bes" for u in spec["uses"]):
        bad = [e for e in resp.get("errors") or () if not (e.get("path") or [None])[0] in [u["alias"] for u in spec["uses"] if u["name"] == "bes"]]
        if bad or not resp.get("errors") or resp.get("data") is None:
            raise Violation(spec, "a null item of [E!] must null that list only and report it" + ctx, tag="errors")
    elif "errors" in resp:
        raise Violation(spec, "unexpected errors" + ctx, tag="errors")
    for u in ([] if null_root else spec["uses"]):
        al = u["alias"]
        got = world.calls.get(al)
        if u["name"] == "intro":
            got = None if got is None else "resolver ran"
        elif got is None:
            raise Violation(spec, "resolver of %s did not run%s" % (al, ctx), tag="norun")
        if not equal(exp_args[al], got):
            raise Violation(spec, "field %s: resolver received %r; the documented composition gives %r%s" % (al, got, show(exp_args[al]), ctx), tag="args")
        if not equal(exp_data[al], resp["data"].get(al)):
            raise Violation(spec, "field %s: data is %r; the documented composition gives %r%s" % (al, resp["data"].get(al), show(exp_data[al]), ctx), tag="data")
    got_counts = {}
    for hook, tag in world.log:
        if hook == "field<":
            continue
        got_counts[(hook, tag)] = got_counts.get((hook, tag), 0) + 1
    if got_counts != exp_counts:
        diff = {k: (exp_counts.get(k, 0), got_counts.get(k, 0)) for k in set(exp_counts) | set(got_counts) if exp_counts.get(k, 0) != got_counts.get(k, 0)}
        raise Violation(spec, "hook invocation counts differ (expected, got): %r%s" % (diff, ctx), tag="counts")
    stages = {h for h, _ in world.log}
    return len(stages), exp_args


def case(c, stats):
    pl = gen_placement(c)
    world = World(pl)
    multi = any(len(v) >= 2 for k, v in pl.items() if not k.startswith("$"))
    for _ in range(REQUESTS_PER_ENGINE):
        spec = gen_request(c)
        spec["placement"] = pl
        nstages, _ = check(spec, world)
        hows = sorted({h for u in spec["uses"] for h in u["how"].values()})
        stats.case(spec, multi and nstages >= 3, ["stages:%d" % nstages] + ["how:" + h for h in hows] + sorted({"field:" + u["name"] for u in spec["uses"]}) + (["merged_nodes"] if any(u["merged_qdirs"] for u in spec["uses"]) else []),
                   {"query": render(spec)[0], "variables": render(spec)[1], "placement": {k: v for k, v in pl.items() if v}})
        # metamorphic: the same request with every input as literal / as whole variable gives the same deliveries
        for how in ("literal", "variable", "nested"):
            twin = copy.deepcopy(spec)
            changed = False
            for u in twin["uses"]:
                for an in u["how"]:
                    if u["how"][an] != how and not (u["name"] == "g" and how == "nested"):
                        u["how"][an] = how
                        changed = True
            if changed:
                check(twin, world)


def run_worker(seed, tier, index, nworkers):
    stats = core.Stats(max_samples=3)
    scale = float(os.environ.get("TFV_SCALE", "1"))
    n = max(1, int(CASES[tier] * scale / nworkers / REQUESTS_PER_ENGINE))
    v = core.run_property(case, seed, n, stats, budget_s=BUDGET[tier], shrink=True)
    out = stats.export()
    out["violations"] = [{"spec": core.jsonable(v.spec), "message": v.message}] if v else []
    return out


def replay(spec):
    check(spec, None)


TECHNIQUE = "property-based testing (Hypothesis): tagging directives at every attachable location; oracle = reference composition of hook order (strings/trails spell the order) + exact invocation counts + literal/variable metamorphic equality"
LEVEL_TEXT = (
    "Directive placements and requests are generated; every hook appends its tag to what it passes on, so delivered arguments and response "
    "strings record the composition order, which is compared with a reference model of the documented order (declaration order outermost, "
    "query-side outside schema-side, stage order), together with exact per-instance invocation counts and equality across input spellings."
)
LEVEL_NOTE = "trusts: the reference composition in tfv/props/c13.py (derived from docs/api/directive.md and the statement); enum value/type relative order left open"
