"""C17 - engines registered under different schema names are independent."""
import copy
import multiprocessing
import os

from tfv import core
from tfv.core import Violation, run_async
from tfv.data import Tree
from tfv.impl import Harness, clean_registry
from tfv.gen import gen_const_value
from tfv.model import canon, print_document, ty
from tfv.props import c01, c02, c14

ID = "C17"
LEVEL = "exploration"
WORKERS = {"quick": 8, "thorough": 16}
CASES = {"quick": 240, "thorough": 6000}  # co-residence scenarios (2-4 bundles each; one spawned process per bundle)
BUDGET = {"quick": 50, "thorough": 560}
RULE = (
    "history = 2-4 generated bundles (schema + resolvers, type resolvers, custom scalars, directives, subscription sources) drawn from "
    "the same name pools, so type / field / scalar / directive names overlap with different definitions and behaviour, x a drawn "
    "interleaving of all their registration steps (one step per decorator application) and cooking steps (a bundle is cooked after its "
    "own registrations; other bundles may register before or after). Oracle = differential: the probe requests of each bundle (generated "
    "data queries, an introspection query, a subscription when the bundle has one) answered by the co-resident engine equal the answers of "
    "the same bundle built alone in a fresh process (forked from a zygote that never registered or executed anything). A third of the "
    "bundles are siblings of an earlier one - identical SDL, or the same names with one interface implementation / union member removed; custom "
    "scalars, directives and resolvers of every bundle behave differently under the same names - and are also probed with that bundle's very request texts. Distinct = SHA-1 of (bundles, step order); non-trivial = some name is "
    "defined differently in >= 2 bundles and their registration steps were interleaved (not bundle after bundle)."
    " 30% of the bundles replace the built-in String by their own implementation (`scalar String` in their SDL)."
    " 12% of the bundles carry a directive implementation with a non-coroutine hook: refused alone, they must be refused next to the others."
)
ASSUMPTIONS = ["responses compared as canonical JSON; harness values have address-free reprs"]

INTROSPECTION = """query I { __schema { queryType { name } mutationType { name } subscriptionType { name }
 types { kind name fields(includeDeprecated: true) { name args { name type { kind name ofType { kind name ofType { kind name } } } defaultValue }
   type { kind name ofType { kind name ofType { kind name ofType { kind name } } } } }
   inputFields { name defaultValue } interfaces { name } enumValues(includeDeprecated: true) { name } possibleTypes { name } }
 directives { name locations args { name defaultValue } } } }"""


class SyncHookDirective:
    """an implementation the engine must refuse at cook time: a hook that is not a coroutine function"""

    def on_field_execution(self, directive_args, next_resolver, parent, args, ctx, info):
        return None


def make_harness(bundle, name):
    cls = c14.SubHarness if bundle["schema"]["roots"].get("subscription") else Harness
    h = cls(bundle["schema"], bundle["plan"], None, schema_name=name)
    if bundle.get("broken_hook"):
        from tfv.impl import make_counting_directive

        h.directive_factory = lambda n: SyncHookDirective if n == bundle["broken_hook"] else make_counting_directive(h, n)
    return h


def probe(h, bundle):
    """-> list of canonical responses for the bundle's probes"""
    schema = bundle["schema"]
    out = []
    for r in bundle["requests"]:
        tree = Tree(schema, None, copy.deepcopy(r["tree"]))
        h.set_tree(tree)
        text = print_document(r["doc"]).text

        async def go():
            return await h.engine.execute(text, operation_name=r["op"], context=h.ctx_token, variables=copy.deepcopy(r["variables"]), initial_value=h.root_value(r["root"]))

        resp = run_async(go())
        out.append(canon(core.jsonable(resp)))
        core.scribble(resp, h.name)

    async def intro():
        return await h.engine.execute(INTROSPECTION)

    out.append(canon(core.jsonable(run_async(intro()))))
    # documents refused by validation rules (the same rules in every bundle)
    for bad in ("{ zzNoSuchField }", "query Q($zzUnused: Int) { __typename }", "{ __typename { x } }"):
        async def refused(bad=bad):
            return await h.engine.execute(bad, context=h.ctx_token)

        resp = run_async(refused())
        out.append(canon(core.jsonable(resp)))
        core.scribble(resp, h.name)
    for s in bundle.get("subscriptions") or ():
        rs = c14.new_state(schema, s)
        got = run_async(c14.consume_plain(h, s, rs, print_document(s["doc"]).text))
        out.append(canon(core.jsonable({"responses": got, "source_calls": [(f, a) for f, a, ok in rs.source_calls]})))
    return out


def solo_worker(bundle):
    """runs in a freshly spawned interpreter: build the bundle alone, answer its probes"""
    from tfv import boot

    boot.boot()
    clean_registry()
    h = make_harness(bundle, "solo")
    try:
        run_async(h.build(**bundle.get("engine_kwargs", {})))
    except Exception as e:  # noqa - a bundle that is refused alone must be refused next to others as well
        return ["COOK_REFUSED:" + type(e).__name__]
    return probe(h, bundle)


_PRISTINE = {"z": None}


def solo(bundle):
    """a process in which nothing but this bundle has ever been registered or executed: a child forked from a zygote that
    was itself forked before this worker did anything (tfv/pristine.py); without a zygote, a freshly spawned interpreter"""
    if _PRISTINE["z"] is not None:
        return core.jsonable(_PRISTINE["z"].call("tfv.props.c17", "solo_worker", bundle))
    return solo_spawned(bundle)


def solo_spawned(bundle):
    import json
    import subprocess
    import sys

    env = dict(os.environ)
    p = subprocess.run(
        [sys.executable, "-c", "import sys, json; sys.path.insert(0, %r); from tfv.props import c17; print('SOLO' + json.dumps(c17.solo_worker(json.load(sys.stdin))))" % core.VERIF],
        input=json.dumps(core.jsonable(bundle)), capture_output=True, text=True, env=env,
    )
    for line in p.stdout.splitlines():
        if line.startswith("SOLO"):
            return json.loads(line[4:])
    raise core.HarnessError("solo process failed: %s %s" % (p.stdout[-2000:], p.stderr[-2000:]))


def sibling(c, schema):
    """a near-copy of another bundle's schema: same names, one thing defined differently"""
    kind = c.weighted([(5, "identical_sdl"), (5, "membership")])
    T = schema["types"]
    if kind == "membership":
        roots = set(schema["roots"].values())
        cands = []
        for tn, td in T.items():
            if td["kind"] == "OBJECT" and tn not in roots:
                for i in td.get("interfaces") or ():
                    if sum(1 for o in T.values() if o["kind"] == "OBJECT" and i in (o.get("interfaces") or ())) >= 2:
                        cands.append(("implements", tn, i))
            if td["kind"] == "UNION" and len(td["members"]) >= 2:
                for m in td["members"]:
                    cands.append(("member", tn, m))
        if cands:
            what, a, b = c.choice(cands)
            if what == "implements":
                T[a]["interfaces"] = [i for i in T[a]["interfaces"] if i != b]
            else:
                T[a]["members"] = [m for m in T[a]["members"] if m != b]
    return kind


def gen_bundle(c, index, clone_of=None):
    variant = None
    if clone_of is not None:
        # same SDL text as another bundle (different behaviour and data), or the same names with one definition changed
        schema, plan = copy.deepcopy(clone_of["schema"]), copy.deepcopy(clone_of["plan"])
        variant = sibling(c, schema)
        sub = bool(schema["roots"].get("subscription"))
    else:
        sub = c.maybe(40)
        schema, plan = c01.build_schema(c, {"subscription": sub, "max_objects": 3})
        plan["sdl_ext_dirs"] = c.maybe(50)
    # one echo field per custom scalar on the query root, so that every bundle's probes run its scalars' input side
    qroot = schema["types"][schema["roots"]["query"]]
    for sn, sd_ in list(schema["types"].items()):
        if sd_["kind"] == "SCALAR" and ("zz" + sn) not in qroot["fields"]:
            qroot["fields"]["zz" + sn] = {"type": "String", "args": {"a": {"type": sn}}}
    plan["directive_tag"] = "B%d" % index
    plan["scalar_tag"] = "B%d" % index  # every bundle implements its custom scalars differently (input side)
    plan["override_string"] = ("B%d" % index) if c.maybe(30) else None  # ... and some replace the built-in String (output side)
    plan["default_fields"] = [] if sub else plan["default_fields"]
    requests = []
    if clone_of is not None:
        # the very texts (and variables, data) the other bundle is probed with: byte-identical requests on two engines.
        # Whether they are valid here does not matter: the oracle is this bundle answering the same text alone.
        requests = [copy.deepcopy(r) for r in clone_of["requests"][-5:]]
    for _ in range(3 if clone_of is None else 2):
        spec, _ = c01.build_request(c, schema, plan, {"max_nodes": 8, "op_types": ["query"]})
        tree, ex, expected, root = c01.reference(spec, c)
        requests.append({"doc": spec["doc"], "op": spec["op"], "variables": spec["variables"], "tree": spec["tree"], "root": root})
    for sn, sd_ in schema["types"].items():
        if sd_["kind"] == "SCALAR" and clone_of is None:
            lit = gen_const_value(c, schema, ty(sn), nullp=0)
            doc = {"defs": [{"k": "op", "type": "query", "name": None, "vars": [], "dirs": [], "sels": [
                {"k": "field", "alias": None, "name": "zz" + sn, "args": [["a", lit]], "dirs": [], "sels": None, "id": 1},
                {"k": "field", "alias": "again", "name": "zz" + sn, "args": [["a", lit]], "dirs": [], "sels": None, "id": 2}]}]}
            spec = {"schema": schema, "plan": plan, "doc": doc, "op": None, "variables": {}, "tree": None}
            tree, ex, expected, root = c01.reference(spec, c)
            requests.append({"doc": doc, "op": None, "variables": {}, "tree": spec["tree"], "root": root})
    subs = []
    if sub:
        s = c14.build_request(c, schema, plan)
        subs.append({k: s[k] for k in ("schema", "doc", "op", "variables", "tree", "events", "faults", "decoy")})
    stack_group = None
    if clone_of is not None and c.maybe(50):
        # the sibling links its custom scalars by stacking the decorator on the other bundle's class (same class, same
        # behaviour, but every schema name must still get its own instance and state)
        stack_group = clone_of.get("stack_group")
        if stack_group is None:
            stack_group = clone_of["stack_group"] = index
        plan["scalar_tag"] = clone_of["plan"]["scalar_tag"]
    plan["scalar_stateful"] = True
    custom = [n for n in (schema.get("directives") or {}) if n not in ("skip", "include", "deprecated", "nonIntrospectable")]
    broken_hook = c.choice(custom) if custom and c.maybe(12) else None
    return {"broken_hook": broken_hook, "schema": schema, "plan": plan, "requests": requests, "subscriptions": subs, "engine_kwargs": {}, "variant": variant, "stack_group": stack_group}


def overlapping_names(bundles):
    seen = {}
    n = 0
    for i, b in enumerate(bundles):
        for tn, td in b["schema"]["types"].items():
            k = canon(td)
            if tn in seen and seen[tn] != k:
                n += 1
            seen.setdefault(tn, k)
    return n


def run_scenario(spec):
    """co-resident build following spec['order']; raises Violation on a differing probe"""
    bundles = spec["bundles"]
    clean_registry()
    hs = [make_harness(b, "b%d" % i) for i, b in enumerate(bundles)]
    groups = {}
    for h, b in zip(hs, bundles):
        if b.get("stack_group") is not None:
            h.stacked_scalars = groups.setdefault(b["stack_group"], {})
    steps = [h.registration_steps() for h in hs]
    pos = [0] * len(hs)
    cooked = [False] * len(hs)
    for kind, i in spec["order"]:
        if kind == "reg":
            steps[i][pos[i]]()
            pos[i] += 1
        else:
            assert pos[i] == len(steps[i]), "cook before registrations finished"
            hs[i].sdl = None

            async def cook(h=hs[i], b=bundles[i]):
                from tartiflette import create_engine
                from tfv.model import print_sdl

                h.sdl = print_sdl(b["schema"], ext_dirs=bool(b["plan"].get("sdl_ext_dirs"))) + ("\nscalar String\n" if b["plan"].get("override_string") else "")
                kw = dict(b.get("engine_kwargs", {}))
                if b["plan"].get("custom_default_resolver"):
                    kw["custom_default_resolver"] = h.custom_default_resolver
                if b["plan"].get("tr_engine"):
                    kw["custom_default_type_resolver"] = h.make_type_resolver("engine")
                h.engine = await create_engine(h.sdl, schema_name=h.name, **kw)

            refused_alone = bool(spec["solo"][i]) and str(spec["solo"][i][0]).startswith("COOK_REFUSED")
            try:
                run_async(cook())
                if refused_alone:
                    raise Violation(spec, "bundle %d (schema name b%d) is refused (%s) when built alone in a fresh process, but cooks next to the others\norder=%r\nSDL:\n%s" % (i, i, spec["solo"][i][0], spec["order"], hs[i].sdl), tag="cook_accepts")
            except Violation:
                raise
            except Exception as e:  # noqa
                if refused_alone:
                    cooked[i] = True
                    hs[i].engine = None
                    continue
                raise Violation(spec, "bundle %d (schema name b%d) cannot be cooked next to the others (%r) although it builds alone in a fresh process\norder=%r\nSDL:\n%s" % (i, i, e, spec["order"], hs[i].sdl), tag="cook")
            cooked[i] = True
    assert all(cooked)
    for i, (h, b) in enumerate(zip(hs, bundles)):
        if h.engine is None:
            continue  # refused, alone and here
        got = probe(h, b)
        want = spec["solo"][i]
        if h.foreign:
            raise Violation(spec, "implementations registered for schema name b%d were invoked for requests of other schema names: %r\norder=%r" % (i, h.foreign[:5], spec["order"]), tag="foreign")
        for k, (g, w) in enumerate(zip(got, want)):
            if g != w:
                what = "data request %d" % k if k < len(b["requests"]) else ("introspection" if k == len(b["requests"]) else "refused document / subscription")
                raise Violation(spec, "bundle %d (schema name b%d), %s: co-resident engine answers differently from the same bundle built alone in a fresh process\n co-resident: %s\n alone:       %s\norder=%r" % (
                    i, i, what, g[:1500], w[:1500], spec["order"]), tag="differs")


def interleaved(order):
    regs = [i for k, i in order if k == "reg"]
    switches = sum(1 for a, b in zip(regs, regs[1:]) if a != b)
    return switches >= len(set(regs))


def case(c, stats):
    n = c.int(2, 4)
    bundles = []
    for i in range(n):
        bundles.append(gen_bundle(c, i, clone_of=bundles[c.int(0, i - 1)] if i and c.maybe(35) else None))
    # interleaving of registration + cook steps
    clean_registry()
    counts = [len(make_harness(b, "probe%d" % i).registration_steps()) for i, b in enumerate(bundles)]
    clean_registry()
    remaining = list(counts)
    cooked = [False] * n
    order = []
    while not all(cooked):
        choices = [("reg", i) for i in range(n) if remaining[i] > 0] + [("cook", i) for i in range(n) if remaining[i] == 0 and not cooked[i]]
        # weight registrations so that interleavings are long
        k = choices[c.int(0, len(choices) - 1)]
        if k[0] == "reg":
            remaining[k[1]] -= 1
        else:
            cooked[k[1]] = True
        order.append(list(k))
    spec = {"bundles": bundles, "order": order, "solo": [solo(b) for b in bundles]}
    run_scenario(spec)
    nt = overlapping_names(bundles) > 0 and interleaved([tuple(x) for x in order])
    stats.case({"b": [(b["schema"], b["plan"]) for b in bundles], "o": order}, nt,
               ["bundles:%d" % n, "identical_sdl:%s" % (len({canon(b["schema"]) for b in bundles}) < n), "with_subscription:%d" % sum(1 for b in bundles if b["subscriptions"]), ] + sorted({"sibling:" + b["variant"] for b in bundles if b.get("variant")}) + (["stacked_scalar_decorators"] if any(b.get("stack_group") is not None and any(t["kind"] == "SCALAR" for t in b["schema"]["types"].values()) for b in bundles) else []) + [ "redefined_names:%d" % min(overlapping_names(bundles), 9)],
               {"bundles": [{"types": list(b["schema"]["types"]), "probes": len(b["requests"]) + 1 + len(b["subscriptions"])} for b in bundles], "order": order})


def run_worker(seed, tier, index, nworkers):
    from tfv.pristine import Pristine

    _PRISTINE["z"] = Pristine()  # before this process registers or executes anything
    stats = core.Stats(max_samples=2)
    scale = float(os.environ.get("TFV_SCALE", "1"))
    n = max(1, int(CASES[tier] * scale / nworkers))
    v = core.run_property(case, seed, n, stats, budget_s=BUDGET[tier], shrink=False)
    _PRISTINE["z"].close()
    out = stats.export()
    out["violations"] = [{"spec": core.jsonable(v.spec), "message": v.message}] if v else []
    return out


def replay(spec):
    spec = dict(spec)
    spec["solo"] = [solo_spawned(b) for b in spec["bundles"]]
    run_scenario(spec)


TECHNIQUE = "property-based testing over registration/cooking histories (Hypothesis-drawn bundles and interleavings); differential oracle = the same bundle built alone in a freshly spawned process"
LEVEL_TEXT = (
    "Bundles with deliberately overlapping names are registered and cooked in a drawn interleaving inside one process; every co-resident "
    "engine must answer its probe requests (data, introspection, subscription) exactly like the same bundle built alone in a new process."
)
LEVEL_NOTE = "trusts: process isolation of the spawned reference; canonical-JSON comparison; shrinking is disabled for this check (each case spawns processes), the replay file is the unshrunk scenario"
