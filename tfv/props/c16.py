"""C16 - the query cache and request history never change a response."""
import copy
import os
from functools import lru_cache

import hypothesis
from hypothesis import strategies as st
from hypothesis.stateful import RuleBasedStateMachine, initialize, invariant, precondition, rule, run_state_machine_as_test

from tfv import core
from tfv.core import HChooser, Violation, run_async
from tfv.data import Tree
from tfv.pristine import Pristine
from tfv.impl import Harness, clean_registry, fresh_schema_name
from tfv.model import canon, print_document
from tfv.mutate import mutants
from tfv.props import c01, c02, c15, c18

ID = "C16"
LEVEL = "exploration"
WORKERS = {"quick": 8, "thorough": 16}
CASES = {"quick": 320, "thorough": 4000}  # state-machine runs (histories)
STEPS = {"quick": 30, "thorough": 60}
BUDGET = {"quick": 80, "thorough": 560}
RULE = (
    "history = Hypothesis rule-based state machine: an initial step draws a schema, co-resident engines of that schema (quick: default LRU, lru_cache(1) and one more; thorough: all five) with cache "
    "configurations {default LRU(512), lru_cache(1), lru_cache(2), custom dict decorator keyed by (query, schema), None} and a pool of "
    "6-10 requests (valid, invalid by mutation, syntactically broken, failing by injected fault, same text with other variables / "
    "operation names, str and bytes spellings of one text); each rule application sends one pool request to every engine. Invariant after "
    "every step: all five responses equal the response of a freshly cooked engine with query_cache_decorator=None (re-cooked at every step "
    "in the thorough tier; once per distinct request in the quick tier; the str and bytes spellings of one text are one request). For every "
    "invalid document, and for every request of a quarter of the histories (all in the thorough tier), the reference is instead a fresh "
    "cache-less engine in a process that never served anything (forked from a zygote, tfv/pristine.py). The argument dictionaries "
    "handed to resolvers are modified in place after every request. Distinct = SHA-1 of (pool, history prefix); non-trivial = the "
    "step re-sends a request whose text was evicted from a small cache since its last use, or re-sends an invalid/broken document."
    " The query directive takes a list argument too (variables inside its literal) and String results show the coerced directive arguments."
)
ASSUMPTIONS = ["quick tier: the oracle is the first answer of one cache-less engine per history, memoised per distinct request; thorough re-cooks a fresh cache-less engine at every step"]
CACHES = ["default", "lru1", "lru2", "dict", "none"]


def dict_cache(fn):
    store = {}

    def wrapper(query, schema):
        key = (query, schema)
        if key not in store:
            store[key] = fn(query, schema)
        return store[key]

    wrapper.store = store
    return wrapper


def cache_kwargs(kind):
    if kind == "default":
        return {}
    if kind == "lru1":
        return {"query_cache_decorator": lru_cache(maxsize=1)}
    if kind == "lru2":
        return {"query_cache_decorator": lru_cache(maxsize=2)}
    if kind == "dict":
        return {"query_cache_decorator": dict_cache}
    return {"query_cache_decorator": None}


def build_pool(c, schema, plan):
    pool = []
    base = []
    for _ in range(c.int(2, 3)):
        spec, _ = c01.build_request(c, schema, plan, {"max_nodes": 10, "p_skipinclude": 30, "w_inline": 25, "w_spread": 25})
        tree, ex, expected, root = c01.reference(spec, c)
        r = {"kind": "valid", "query": print_document(spec["doc"]).text, "op": spec["op"], "variables": spec["variables"], "tree": spec["tree"], "faults": [], "doc": spec["doc"]}
        base.append((r, spec, ex))
        pool.append(r)
    # every Boolean variable of a base request flipped on its own: same text, other @skip/@include decisions
    for r0, spec, ex in list(base):
        for k, old in list((r0["variables"] or {}).items())[:3]:
            if isinstance(old, bool):
                spec2 = dict(spec, variables=dict(r0["variables"], **{k: not old}), tree=None)
                c01.reference(spec2, c)
                r = copy.deepcopy(r0)
                r.update(kind="other_vars", variables=spec2["variables"], tree=spec2["tree"])
                pool.append(r)
    if c.maybe(40):
        # two different introspection requests (refused ones, when the schema is @nonIntrospectable): what the first leaves
        # behind - located errors, hidden elements - must not show in the second
        r0, spec, ex = base[0]
        for _ in range(2):
            ir = c15.introspection_request(c, schema, dict(r0, doc=spec["doc"]))
            r = copy.deepcopy(r0)
            r.update(kind="introspection", query=print_document(ir["doc"]).text, op=None, variables={}, faults=[])
            pool.append(r)
    target = max(len(pool) + 2, c.int(6, 10))
    while len(pool) < target:
        r0, spec, ex = c.choice(base)
        kind = c.weighted([(3, "invalid"), (2, "syntax"), (5, "other_vars"), (2, "bytes"), (2, "faulty"), (1, "other_op"), (2, "introspection"), (4, "typo_in_variable")])
        if kind == "introspection":
            ir = c15.introspection_request(c, schema, dict(r0, doc=spec["doc"]))
            r = copy.deepcopy(r0)
            r.update(kind="introspection", query=print_document(ir["doc"]).text, op=None, variables={}, faults=[])
            pool.append(r)
            continue
        if kind == "typo_in_variable":
            # an input-object variable with a misspelt field (the engine then suggests close names)
            ops = [d for d in spec["doc"]["defs"] if d["k"] == "op"]
            op = next((d for d in ops if d.get("name") == r0["op"]), ops[0])
            cands = [v for v in op.get("vars") or () if schema["types"].get(v["type"].strip("[]!"), {}).get("kind") == "INPUT"]
            if not cands:
                continue
            # prefer an input type with >= 3 fields: a one-letter prefix is then close to all of them (>= 3 suggestions)
            rich = [v for v in cands if len(schema["types"][v["type"].strip("[]!")]["fields"]) >= 3]
            v = c.choice(rich) if rich and c.maybe(70) else cands[c.int(0, len(cands) - 1)]
            fields = list(schema["types"][v["type"].strip("[]!")]["fields"])
            typo = c.weighted([(2, fields[0][:-1]), (1, fields[0] + "x"), (2, "f")])
            val = {typo: 1}
            for _ in range(v["type"].count("[")):
                val = [val]
            r = copy.deepcopy(r0)
            r["kind"] = "typo_in_variable"
            r["variables"] = dict(r0["variables"] or {}, **{v["name"]: val})
            pool.append(r)
            continue
        r = copy.deepcopy(r0)
        r["kind"] = kind
        if kind == "invalid":
            ms = list(mutants(schema, spec["doc"]))
            if not ms:
                continue
            rewrite = c.choice(sorted({m[0] for m in ms}))  # rule first, then a site: every rule gets the same share
            ms = [m for m in ms if m[0] == rewrite]
            r["query"] = print_document(ms[c.int(0, len(ms) - 1)][3]).text
        elif kind == "syntax":
            r["query"] = c18.mutate_tokens(c, r0["query"]) + c.choice(["", " {", "}"])
        elif kind == "other_vars":
            # the same text with really different values for its declared variables (and fresh data)
            from tfv.gen import DocGen

            ops = [d for d in spec["doc"]["defs"] if d["k"] == "op"]
            op = next((d for d in ops if d.get("name") == r0["op"]), ops[0])
            dg = DocGen(c, schema)
            dg.vars = {v["name"]: dict(v, must_provide=True, nn_use=True) for v in op.get("vars") or ()}
            spec2 = dict(spec, variables=dg.variable_values(op), tree=None)
            for k, old in (r0["variables"] or {}).items():
                if isinstance(old, bool) and k in spec2["variables"] and c.maybe(70):
                    spec2["variables"][k] = not old  # make sure @skip/@include decisions really change
            if c.maybe(30):
                spec2["variables"]["zzExtra"] = c.int(0, 9)
            c01.reference(spec2, c)
            r["variables"], r["tree"] = spec2["variables"], spec2["tree"]
        elif kind == "bytes":
            r["query"] = {"$bytes": r0["query"].encode("utf-8").hex()}
        elif kind == "faulty":
            sites = c02.fault_sites(schema, ex)
            if not sites:
                continue
            lab, key, f, _ = sites[c.int(0, len(sites) - 1)]
            r["faults"] = [[list(key), c02.fault_to_json(f)]]
        else:
            ops = [d.get("name") for d in spec["doc"]["defs"] if d["k"] == "op"]
            r["op"] = c.choice(ops + ["NoSuchOperation"])
        pool.append(r)
    for r in pool:
        r.pop("doc", None)
    return pool


def send(h, schema, r):
    tree = Tree(schema, None, copy.deepcopy(r["tree"]))
    c02.install(tree, [(tuple(k), c02.fault_from_json(f)) for k, f in r.get("faults") or ()])
    h.set_tree(tree)
    q = r["query"]
    if isinstance(q, dict):
        q = bytes.fromhex(q["$bytes"])

    async def go():
        return await h.engine.execute(q, operation_name=r["op"], context=h.ctx_token, variables=copy.deepcopy(c02.effective_variables(r)), initial_value=h.root_value(schema["roots"]["query"]))

    resp = run_async(go())
    out = canon(core.jsonable(resp))
    core.scribble(resp, "c16")
    h.scramble_live()  # the argument dictionaries this request's resolvers received are modified in place afterwards
    return out


def ident(r):
    """identity of a request: the str and the bytes spelling of one text are the same request"""
    q = r["query"]
    if isinstance(q, dict):
        try:
            q = bytes.fromhex(q["$bytes"]).decode("utf-8")
        except UnicodeDecodeError:
            q = "$bytes:" + q["$bytes"]
    return canon([q, r["op"], core.jsonable(r["variables"]), r.get("faults"), r.get("tree")])


class World:
    def __init__(self, schema, plan, pool, rebuild_every_step, caches=None, pristine=False):
        self.schema, self.plan, self.pool = schema, plan, pool
        self.pristine, self.pmemo = pristine, {}
        clean_registry()
        self.engines = []
        self.caches = list(caches or CACHES)
        for kind in self.caches:
            h = Harness(schema, plan, None)
            run_async(h.build(**cache_kwargs(kind)))
            self.engines.append((kind, h))
        self.rebuild = rebuild_every_step
        self.memo = {}
        self.history = []

    def reference(self, i):
        """thorough: a freshly cooked engine without parsing cache at every step; quick: the first answer of one
        cache-less engine cooked for this history (a cache-less engine re-parses every time, so it has no
        parsing history; what it answered first is what a fresh engine answers)"""
        key = ident(self.pool[i])
        use_pristine = self.pristine or self.pool[i]["kind"] == "invalid"  # invalid documents: in every history (what validation keeps at module level shows there)
        if use_pristine and _STATS.get("pristine") is not None:
            # a fresh cache-less engine in a process that has never served a request (forked from a zygote created
            # before this worker executed anything): also free of whatever the library keeps at module level
            if key not in self.pmemo:
                self.pmemo[key] = _STATS["pristine"].call("tfv.props.c16", "pristine_answer", self.schema, self.plan, self.pool[i])
            if not self.rebuild:
                return self.pmemo[key]
        if not self.rebuild:
            if key not in self.memo:
                if getattr(self, "uncached", None) is None:
                    self.uncached = Harness(self.schema, self.plan, None)
                    run_async(self.uncached.build(query_cache_decorator=None))
                self.memo[key] = send(self.uncached, self.schema, self.pool[i])
            return self.memo[key]
        h = Harness(self.schema, self.plan, None)
        run_async(h.build(query_cache_decorator=None))
        ref = send(h, self.schema, self.pool[i])
        if use_pristine and key in self.pmemo and self.pmemo[key] != ref:
            spec = {"schema": self.schema, "plan": self.plan, "pool": self.pool, "history": list(self.history) + [i], "caches": self.caches}
            raise Violation(spec, "a fresh cache-less engine answers request #%d differently in this process (history %r) than in a process that never served a request\n here:     %s\n pristine: %s" % (i, self.history, ref[:1500], self.pmemo[key][:1500]), tag="process_state")
        return ref

    def step(self, i):
        self.history.append(i)
        ref = self.reference(i)
        for kind, h in self.engines:
            got = send(h, self.schema, self.pool[i])
            if got != ref:
                spec = {"schema": self.schema, "plan": self.plan, "pool": self.pool, "history": list(self.history), "caches": self.caches}
                _STATS["last_violation"] = _STATS.get("last_violation") or Violation(spec, "cache %r answered request #%d differently from a fresh uncached engine after history %r" % (kind, i, self.history))
                raise Violation(spec, "engine with cache %r answered request #%d (%s) differently from a fresh uncached engine after history %r\n cached:   %s\n uncached: %s\nquery=%r op=%r variables=%r" % (
                    kind, i, self.pool[i]["kind"], self.history, got[:1500], ref[:1500], self.pool[i]["query"], self.pool[i]["op"], self.pool[i]["variables"]), tag="cache")

    def nontrivial_step(self):
        """re-send after an eviction from the 1-slot cache, or of an invalid/broken document"""
        i = self.history[-1]
        prev = [k for k, j in enumerate(self.history[:-1]) if self.pool[j]["query"] == self.pool[i]["query"]]
        if not prev:
            return False
        if self.pool[i]["kind"] in ("invalid", "syntax"):
            return True
        between = self.history[prev[-1] + 1 : -1]
        return any(self.pool[j]["query"] != self.pool[i]["query"] for j in between)


_STATS = {"stats": None, "tier": "quick", "last_violation": None}


class CacheMachine(RuleBasedStateMachine):
    def __init__(self):
        super().__init__()
        self.world = None

    @initialize(data=st.data())
    def setup(self, data):
        c = HChooser(data)
        schema, plan = c01.build_schema(c, {"max_inputs": 3, "qd_list_arg": True})
        plan["echo_directive_args"] = True  # String results show the coerced arguments of the query directives that wrapped them
        if c.maybe(25):
            schema["schema_dirs"] = [{"name": "nonIntrospectable", "args": []}]
        plan["scramble_args"] = True
        pool = build_pool(c, schema, plan)
        # quick tier: the default LRU, the 1-slot LRU (evictions) and one more configuration; thorough: all five
        caches = CACHES if _STATS["tier"] == "thorough" else ["default", "lru1", c.choice(["lru2", "dict", "none"])]
        # the fresh-process oracle costs a fork + cook per distinct request: always in the thorough tier, a quarter of the histories in quick
        pristine = _STATS["tier"] == "thorough" or c.maybe(25)
        self.world = World(schema, plan, pool, _STATS["tier"] == "thorough", caches, pristine)
        if pristine and _STATS["stats"] is not None:
            _STATS["stats"].hist["histories_with_fresh_process_oracle"] = _STATS["stats"].hist.get("histories_with_fresh_process_oracle", 0) + 1

    @rule(k=st.integers(0, 9))
    def send_one(self, k):
        w = self.world
        i = k % len(w.pool)
        w.step(i)
        st_ = _STATS["stats"]
        if st_ is not None:
            st_.case({"pool": [(r["query"], r["op"], r["variables"], r["faults"]) for r in w.pool], "h": list(w.history)}, w.nontrivial_step(),
                     ["kind:" + w.pool[i]["kind"], "history_len:%d" % min(len(w.history) // 10 * 10, 50)],
                     {"history": list(w.history), "pool": [{"kind": r["kind"], "query": r["query"], "op": r["op"], "variables": r["variables"]} for r in w.pool]})

    @precondition(lambda self: self.world is not None and len(self.world.history) >= 2)
    @rule(k=st.integers(0, 9))
    def resend_earlier(self, k):
        """bias towards repeats: re-send a request seen earlier in this history"""
        w = self.world
        i = w.history[k % len(w.history)]
        w.step(i)
        st_ = _STATS["stats"]
        if st_ is not None:
            st_.case({"pool": [(r["query"], r["op"], r["variables"], r["faults"]) for r in w.pool], "h": list(w.history)}, w.nontrivial_step(), ["kind:" + w.pool[i]["kind"], "resend"])


def pristine_answer(schema, plan, r):
    """runs in a forked child of the zygote (tfv/pristine.py)"""
    clean_registry()
    h = Harness(schema, plan, None)
    run_async(h.build(query_cache_decorator=None))
    return send(h, schema, r)


def run_worker(seed, tier, index, nworkers):
    stats = core.Stats(max_samples=2)
    _STATS["pristine"] = Pristine()  # before this process executes anything
    _STATS["stats"], _STATS["tier"] = stats, tier
    scale = float(os.environ.get("TFV_SCALE", "1"))
    n = max(1, int(CASES[tier] * scale / nworkers))
    # histories shrink slowly (every step re-runs several engines): shrink only in the thorough tier
    settings = hypothesis.settings(core.hyp_settings(n, shrink=(tier == "thorough")), stateful_step_count=STEPS[tier])
    viol = None
    try:
        run_state_machine_as_test(hypothesis.seed(seed)(CacheMachine), settings=settings)
    except Violation as v:
        viol = v
    except BaseException as e:  # noqa
        if _STATS.get("last_violation") is not None and type(e).__name__.startswith("Flaky"):
            viol = _STATS["last_violation"]
            viol.message = "(not reproducible on immediate re-execution: the engine keeps state across requests/engines) " + viol.message
        else:
            raise
    _STATS["pristine"].close()
    out = stats.export()
    out["violations"] = [{"spec": core.jsonable(viol.spec), "message": viol.message}] if viol else []
    return out


def replay(spec):
    _STATS["pristine"] = Pristine()
    try:
        w = World(spec["schema"], spec["plan"], spec["pool"], True, spec.get("caches"), True)
        for i in spec["history"]:
            w.step(i)
    finally:
        _STATS["pristine"].close()


TECHNIQUE = "stateful property-based testing (Hypothesis RuleBasedStateMachine) over request histories; differential oracle = fresh engine without parsing cache"
LEVEL_TEXT = (
    "Request histories are generated and shrunk by Hypothesis's rule-based state machine; after every step each of five co-resident engines "
    "(default LRU, capacity 1, capacity 2, custom dict decorator, no cache) must answer exactly like a freshly cooked engine without cache."
)
LEVEL_NOTE = "trusts: determinism of a fresh engine (used as the oracle); canonical-JSON comparison of responses"
