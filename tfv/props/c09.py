"""C09 - mutation root fields run serially, in document order."""
import copy
import os

from tfv import core
from tfv.core import Violation, run_async
from tfv.props import c01, c02, c08

ID = "C09"
LEVEL = "exploration"
WORKERS = {"quick": 8, "thorough": 16}
CASES = {"quick": 1500, "thorough": 40000}
BUDGET = {"quick": 50, "thorough": 560}
SCHEDULES = {"quick": 80, "thorough": 1500}
RULE = (
    "case = generated mutation document with 2-5 root entries (aliases, repeated keys, fragments / inline fragments / @skip at the root) "
    "over nested selections with lists, every resolver gated, optional failure at a root or nested field x schedules of the nested gates "
    "(depth-first enumeration incl. bursts, exhaustive when within budget). Oracle = history invariant on the scheduler log: no resolver "
    "under root key j starts before every resolver under root key i<j has finished; root keys appear in data in collection order; a "
    "failing nullable root leaves the later roots executed, a failing non-null root nulls data; the same selection run as a `query` "
    "must show overlapping roots in some schedule (non-vacuity of the log). Distinct = SHA-1 of (document, fault, schedule); non-trivial "
    "= some root had >= 2 nested gates released in an order other than creation order before the next root started."
)
ASSUMPTIONS = c08.ASSUMPTIONS
DOC_OPTS = {"max_nodes": 9, "max_frags": 2, "max_sels": 4, "max_depth": 3, "max_ops": 1, "op_types": ["mutation"]}


def serial_check(s, resp, sspec, ctx, ex, expected):
    root_keys = []
    for p, *_ in ex.calls:
        if p[0] not in root_keys:
            root_keys.append(p[0])
    first_start, last_finish = {}, {}
    for i, (kind, label) in enumerate(s.log):
        if label[0] != "resolver":
            continue
        r = label[1][0]
        if kind == "start":
            first_start.setdefault(r, i)
        else:
            last_finish[r] = i
    order = [r for r in root_keys if r in first_start]
    for a, b in zip(order, order[1:]):
        if first_start[b] < last_finish[a]:
            raise Violation(sspec, "mutation root %r started before root %r (with its sub-selection) had completed; log=%r%s" % (b, a, s.log, ctx), tag="overlap")
    started = sorted(first_start, key=first_start.get)
    if started != order:
        raise Violation(sspec, "mutation roots started in order %r, collection order is %r%s" % (started, order, ctx), tag="order")
    if isinstance(resp.get("data"), dict) and isinstance(expected, dict) and list(resp["data"].keys()) != list(expected.keys()):
        raise Violation(sspec, "root keys in data %r are not in collection order %r%s" % (list(resp["data"].keys()), list(expected.keys()), ctx), tag="keyorder")
    if expected is not None:
        # every collected root ran although earlier nullable roots may have failed
        for r in root_keys:
            if r not in first_start:
                raise Violation(sspec, "root %r never started although data is not null%s" % (r, ctx), tag="skipped")


def reordered(s):
    """some root had >= 2 nested gates released out of creation order"""
    created = [l for k, l in s.log if k == "start" and l[0] == "resolver"]
    per_root = {}
    for l in s.released:
        if l[0] == "resolver":
            per_root.setdefault(l[1][0], []).append(l)
    for r, rel in per_root.items():
        cr = [l for l in created if l[1][0] == r]
        if len(rel) >= 3 and rel != cr:
            return True
    return False


def case(c, stats):
    tier = os.environ.get("VERIF_TIER_INTERNAL", "quick")
    schema, base_plan = c01.build_schema(c, {"max_objects": 3, "max_interfaces": 1, "max_unions": 1, "mutation": "always"})
    q, m = schema["roots"]["query"], schema["roots"]["mutation"]
    schema["types"][m] = copy.deepcopy(schema["types"][q])  # same selections are legal on both roots
    cfg = c08.gen_config(c, schema, c.maybe(50))
    plan = c08.plan_for(base_plan, cfg)
    plan["gate_hooks"] = False
    h = run_async(c01.make_harness(schema, plan, c08.engine_kwargs(cfg)))
    overlap_seen = {"n": 0, "eligible": 0}
    for _ in range(2):
        spec, _ = c01.build_request(c, schema, plan, DOC_OPTS)
        tree, ex, expected, root = c01.reference(spec, c)
        roots = []
        for p, *_ in ex.calls:
            if p[0] not in roots:
                roots.append(p[0])
        if len(ex.calls) > 10 or len(roots) < 2:
            continue
        spec["faults"] = []
        if c.maybe(50):
            sites = c02.fault_sites(schema, ex)
            sites = [x for x in sites if x[1][0] != "$type"]
            if sites:
                lab, key, f, _ = c02.pick_fault(c, sites)
                spec["faults"] = [[list(key), c02.fault_to_json(f)]]
        cspec = dict(spec, plan=plan, config=cfg)
        scripts = [[c.int(0, 7) for _ in range(c.int(1, 12))] for _ in range(4)]
        runs, exhaustive, seen = c08.run_schedules(cspec, h, SCHEDULES[tier], scripts, stats, extra=serial_check, nontrivial_fn=reordered)
        stats.hist["exhaustive_requests" if exhaustive else "capped_requests"] = stats.hist.get("exhaustive_requests" if exhaustive else "capped_requests", 0) + 1
        # non-vacuity: the same selection as a query overlaps roots under some schedule
        if not spec["faults"] and cfg["parent"] is not False:
            twin = copy.deepcopy(spec)
            def retarget(sels):
                for x in sels:
                    if x.get("on") == m:
                        x["on"] = q
                    if x.get("sels"):
                        retarget(x["sels"])

            for d in twin["doc"]["defs"]:
                if d["k"] == "op":
                    d["type"] = "query"
                elif d.get("on") == m:
                    d["on"] = q
                retarget(d["sels"])
            twin["tree"] = None
            c01.reference(twin, c)
            tspec = dict(twin, plan=plan, config=cfg, faults=[])
            found = {"overlap": False}

            def look(s, resp, sspec, ctx, ex2, expected2):
                fs, lf = {}, {}
                for i, (kind, label) in enumerate(s.log):
                    if label[0] == "resolver":
                        (fs.setdefault if kind == "start" else lf.__setitem__)(label[1][0], i)
                keys = sorted(fs, key=fs.get)
                for a, b in zip(keys, keys[1:]):
                    if fs[b] < lf.get(a, -1):
                        found["overlap"] = True

            c08.run_schedules(tspec, h, 12, [], None, extra=look)
            overlap_seen["eligible"] += 1
            overlap_seen["n"] += 1 if found["overlap"] else 0
            stats.hist["query_twin_overlaps" if found["overlap"] else "query_twin_no_overlap"] = stats.hist.get("query_twin_overlaps" if found["overlap"] else "query_twin_no_overlap", 0) + 1


def run_worker(seed, tier, index, nworkers):
    os.environ["VERIF_TIER_INTERNAL"] = tier
    stats = core.Stats(max_samples=3)
    scale = float(os.environ.get("TFV_SCALE", "1"))
    n = max(1, int(CASES[tier] * scale / nworkers))
    v = core.run_property(case, seed, n, stats, budget_s=BUDGET[tier], shrink=True)
    out = stats.export()
    out["violations"] = [{"spec": core.jsonable(v.spec), "message": v.message}] if v else []
    return out


def replay(spec):
    cfg = spec["config"]
    h = run_async(c01.make_harness(spec["schema"], spec["plan"], c08.engine_kwargs(cfg)))
    if "schedule" in spec:
        c08.run_schedules(spec, h, 0, [spec["schedule"]], None, extra=serial_check)
    else:
        c08.run_schedules(spec, h, 2000, [], None, extra=serial_check)


TECHNIQUE = "schedule exploration with a controlled asyncio scheduler over Hypothesis-generated mutation documents; oracle = history invariant on the start/finish log (serial roots), with a query twin as non-vacuity control"
LEVEL_TEXT = (
    "Every resolver of generated mutation requests is gated; all release orders of the nested gates are enumerated (exhaustively for "
    "small requests) and the start/finish log must show each root field, with its whole sub-selection, completing before the next root "
    "starts, in collection order, also around injected failures. The same selection executed as a query is required to overlap, which "
    "shows the log can see concurrency."
)
LEVEL_NOTE = "trusts: the controlled scheduler (tfv/sched.py) and the reference executor for expected data"
