"""C12 - an engine is never built from an SDL that breaks a checked schema rule."""
import copy
import os
import re

from tfv import core
from tfv.core import Violation, run_async
from tfv.impl import clean_registry, make_scalar
from tfv.model import BUILTIN_SCALARS, named, possible_types, ty, ty_str
from tfv.props import c11
from tfv.ref import CODECS

from tartiflette import Directive, Engine, Scalar, create_engine

ID = "C12"
LEVEL = "fault_enumeration"
WORKERS = {"quick": 8, "thorough": 16}
CASES = {"quick": 52, "thorough": 3000}  # carriers; every rewrite at every site (capped)
BUDGET = {"quick": 50, "thorough": 560}
MAX_MUTANTS = 120
RULE = (
    "carrier = generated valid schema model split into definitions and extensions (C11 generator); every rewrite of an SDL-level violation "
    "catalogue (undefined type in field / argument / input field, bare or wrapped, in base or extension, on objects and interfaces; "
    "non-input type for argument / input field; interface not honoured: missing field, incompatible type, missing / mistyped / extra "
    "required argument, via base or `extend ... implements`; implementing a non-interface or unknown type; no query root; undefined root "
    "in `schema` / `extend schema` incl. default-looking names; object without fields; union containing itself; duplicate enum value in "
    "base or via extension; duplicate type / directive definition; scalar without implementation; invalid extend: unknown target, wrong "
    "kind, member already in base, member repeated across two extensions; directive with a non-coroutine hook; syntactically invalid "
    "text; one name defined with two different kinds, in both orders) is applied at every applicable site (deterministic stride cap of 120 per carrier); before the attempts two decoy schemas are "
    "built in the same process in which the carrier's and the rewrites' names have the other kind (composites as inputs, inputs as objects). Oracle = create_engine raises AND an Engine "
    "whose cook() failed cannot answer a request. Distinct = SHA-1 of the mutated SDL; non-trivial = the site is inside an extension or "
    "behind a list/non-null wrapper."
    " Also: arguments of non-input / undefined type on a field of an interface that no object implements."
)
ASSUMPTIONS = ["each rewrite certainly violates the named rule (hand-derived from the statement's list)"]


def retarget(tstr, new):
    """replace the named type inside a (possibly wrapped) type string"""
    return re.sub(r"[A-Za-z_][A-Za-z0-9_]*", new, tstr, count=1)


def find_type_pieces(pieces, name):
    return [i for i, p in enumerate(pieces) if p["p"] in ("type", "ext") and p["name"] == name]


def mutants(M, pieces):
    """yield (rewrite, site_class, nontrivial, pieces', extra)"""
    T = M["types"]

    def mk():
        return copy.deepcopy(pieces)

    objs = [n for n, d in T.items() if d["kind"] == "OBJECT"]
    ifaces = [n for n, d in T.items() if d["kind"] == "INTERFACE"]
    unions = [n for n, d in T.items() if d["kind"] == "UNION"]
    enums = [n for n, d in T.items() if d["kind"] == "ENUM"]
    inputs = [n for n, d in T.items() if d["kind"] == "INPUT"]
    non_input = {"object": objs[:1], "interface": ifaces[:1], "union": unions[:1]}

    # ---- type references
    for i, p in enumerate(pieces):
        if p["p"] not in ("type", "ext"):
            continue
        d = p["def"]
        where = "ext" if p["p"] == "ext" else "base"
        k = d["kind"]
        for fn, fd in (d.get("fields") or {}).items():
            wrapped = fd["type"] != named(ty(fd["type"]))
            cls = "%s_%s_%s" % ("input_field" if k == "INPUT" else "field", k.lower(), where) + ("_wrapped" if wrapped else "_bare")
            m = mk()
            m[i]["def"]["fields"][fn]["type"] = retarget(fd["type"], "ZzUndefined")
            yield "undefined_type", cls, where == "ext" or wrapped, m, {}
            if k == "INPUT":
                for kind, names in non_input.items():
                    for n in names:
                        m = mk()
                        m[i]["def"]["fields"][fn]["type"] = retarget(fd["type"], n)
                        m[i]["def"]["fields"][fn].pop("default", None)
                        yield "non_input_type", "input_field_%s_%s" % (kind, where), where == "ext" or wrapped, m, {}
            for an, ad in (fd.get("args") or {}).items():
                awrapped = ad["type"] != named(ty(ad["type"]))
                m = mk()
                m[i]["def"]["fields"][fn]["args"][an]["type"] = retarget(ad["type"], "ZzUndefined")
                m[i]["def"]["fields"][fn]["args"][an].pop("default", None)
                # keep implementers consistent is not needed: one violation is enough
                yield "undefined_type", "argument_%s_%s" % (k.lower(), where) + ("_wrapped" if awrapped else "_bare"), where == "ext" or awrapped, m, {}
                for kind, names in non_input.items():
                    for n in names:
                        m = mk()
                        m[i]["def"]["fields"][fn]["args"][an]["type"] = retarget(ad["type"], n)
                        m[i]["def"]["fields"][fn]["args"][an].pop("default", None)
                        yield "non_input_type", "argument_%s_%s" % (kind, where), where == "ext" or awrapped, m, {}

    # an interface nobody implements (so that no implementer's own check can stand in for it) whose field takes a non-input
    # type / an undefined type as argument, bare and wrapped
    for kind, names in list(non_input.items()) + [("undefined", ["ZzUndefined"])]:
        for n in names:
            for wrap in ("%s", "[%s!]"):
                m = mk()
                m.append({"p": "type", "name": "ZzLonely", "def": {"kind": "INTERFACE", "fields": {"a": {"type": "Int", "args": {"x": {"type": wrap % n}}}}}})
                yield ("non_input_type" if kind != "undefined" else "undefined_type"), "argument_%s_unimplemented_interface" % kind, wrap != "%s", m, {}

    # ---- interfaces not honoured
    for o in objs:
        for iname in T[o].get("interfaces") or ():
            via_ext = any(p["p"] == "ext" and p["name"] == o and iname in (p["def"].get("interfaces") or ()) for p in pieces)
            w = "implements_in_ext" if via_ext else "implements_in_base"
            for fn, ifd in T[iname]["fields"].items():
                locs = [i for i in find_type_pieces(pieces, o) if fn in (pieces[i]["def"].get("fields") or {})]
                if not locs:
                    continue
                i = locs[0]
                fw = w + ("_field_in_ext" if pieces[i]["p"] == "ext" else "")
                m = mk()
                del m[i]["def"]["fields"][fn]
                if not m[i]["def"]["fields"] and m[i]["p"] == "ext" and not m[i]["def"].get("interfaces"):
                    m[i]["def"]["fields"] = {"zzOther": {"type": "Int", "args": {}}}
                yield "interface_not_honoured", "missing_field_" + fw, via_ext or "ext" in fw, m, {}
                base = named(ty(ifd["type"]))
                other = "String" if base != "String" else "Int"
                m = mk()
                m[i]["def"]["fields"][fn]["type"] = retarget(pieces[i]["def"]["fields"][fn]["type"], other)
                yield "interface_not_honoured", "incompatible_type_" + fw, via_ext or "ext" in fw, m, {}
                # nullability required by the interface dropped by the implementation (at any wrapper level)
                ot = pieces[i]["def"]["fields"][fn]["type"]
                for pos in [k for k, ch in enumerate(ifd["type"]) if ch == "!"]:
                    if ot == ifd["type"]:
                        m = mk()
                        m[i]["def"]["fields"][fn]["type"] = ot[:pos] + ot[pos + 1:]
                        yield "interface_not_honoured", "nullability_dropped_%s_" % ("outer" if pos == len(ot) - 1 else "inner") + fw, True, m, {}
                m = mk()
                m[i]["def"]["fields"][fn].setdefault("args", {})["zzRequired"] = {"type": "Int!"}
                yield "interface_not_honoured", "extra_required_argument_" + fw, via_ext or "ext" in fw, m, {}
                for an, ad in (ifd.get("args") or {}).items():
                    m = mk()
                    del m[i]["def"]["fields"][fn]["args"][an]
                    yield "interface_not_honoured", "missing_argument_" + fw, via_ext or "ext" in fw, m, {}
                    abase = named(ty(ad["type"]))
                    aother = "String" if abase != "String" else "Int"
                    m = mk()
                    m[i]["def"]["fields"][fn]["args"][an]["type"] = retarget(ad["type"], aother)
                    m[i]["def"]["fields"][fn]["args"][an].pop("default", None)
                    yield "interface_not_honoured", "mistyped_argument_" + fw, via_ext or "ext" in fw, m, {}
    for o in objs[:2]:
        i = [k for k in find_type_pieces(pieces, o) if pieces[k]["p"] == "type"][0]
        for bad, cls in [("ZzUnknownInterface", "unknown")] + [(objs[-1], "object")] + [(n, "enum") for n in enums[:1]] + [(n, "union") for n in unions[:1]]:
            if bad == o:
                continue
            m = mk()
            m[i]["def"]["interfaces"] = list(m[i]["def"].get("interfaces") or []) + [bad]
            yield "implements_non_interface", cls + "_base", False, m, {}
            m = mk()
            m.append({"p": "ext", "name": o, "def": {"kind": "OBJECT", "fields": {}, "interfaces": [bad]}})
            yield "implements_non_interface", cls + "_ext", True, m, {}

    # ---- roots
    q = M["roots"]["query"]
    has_schema = any(p["p"] == "schema" for p in pieces)
    if not has_schema:
        m = [p for p in mk() if not (p["p"] in ("type", "ext") and p["name"] == q)]
        for p in m:
            strip_refs(p, q)
        yield "no_query_root", "query_type_absent", False, m, {}
    for op in ("query", "mutation", "subscription"):
        m = mk()
        sp = [p for p in m if p["p"] == "schema"]
        if sp:
            sp[0]["def"]["roots"][op] = "ZzNoSuchRoot"
            m = [p for p in m if not (p["p"] == "schema_ext" and op in p["def"]["roots"])]
        else:
            roots = dict(M["roots"])
            roots[op] = "ZzNoSuchRoot"
            m.append({"p": "schema", "def": {"roots": roots, "dirs": None}})
        yield "undefined_root", "schema_" + op, False, m, {}
        default_name = {"query": "Query", "mutation": "Mutation", "subscription": "Subscription"}[op]
        if default_name not in T and op != "query":
            m = mk()
            sp = [p for p in m if p["p"] == "schema"]
            if sp:
                sp[0]["def"]["roots"][op] = default_name
                m = [p for p in m if not (p["p"] == "schema_ext" and op in p["def"]["roots"])]
            else:
                roots = dict(M["roots"])
                roots[op] = default_name
                m.append({"p": "schema", "def": {"roots": roots, "dirs": None}})
            yield "undefined_root", "schema_default_looking_" + op, False, m, {}
        if op != "query" and not M["roots"].get(op):
            m = mk()
            if not any(p["p"] == "schema" for p in m):
                m.append({"p": "schema", "def": {"roots": dict(M["roots"]), "dirs": None}})
            m.append({"p": "schema_ext", "def": {"roots": {op: "ZzNoSuchRoot"}}})
            yield "undefined_root", "extend_schema_" + op, True, m, {}

    # ---- structure
    for op, o in M["roots"].items():
        # a root type without fields (the injected __schema / __type / __typename do not count)
        m = [p for p in mk() if not (p["p"] == "ext" and p["name"] == o)]
        for p in m:
            if p["p"] == "type" and p["name"] == o:
                p["def"]["fields"] = {}
                p["def"]["interfaces"] = []
        yield "object_without_fields", "%s_root" % op, False, m, {}
    for o in objs[:3]:
        if o in M["roots"].values():
            continue
        m = [p for p in mk() if not (p["p"] == "ext" and p["name"] == o and p["def"].get("fields"))]
        for p in m:
            if p["p"] == "type" and p["name"] == o:
                p["def"]["fields"] = {}
                p["def"]["interfaces"] = []
        m = [p for p in m if not (p["p"] == "ext" and p["name"] == o)]
        yield "object_without_fields", "object", False, m, {}
    for u in unions:
        i = [k for k in find_type_pieces(pieces, u) if pieces[k]["p"] == "type"][0]
        m = mk()
        m[i]["def"]["members"] = list(m[i]["def"]["members"]) + [u]
        yield "union_contains_itself", "base", False, m, {}
        m = mk()
        m.append({"p": "ext", "name": u, "def": {"kind": "UNION", "members": [u]}})
        yield "union_contains_itself", "ext", True, m, {}
    for e in enums:
        i = [k for k in find_type_pieces(pieces, e) if pieces[k]["p"] == "type"][0]
        v0 = pieces[i]["def"]["values"][0]
        m = mk()
        m[i]["def"]["values"] = list(m[i]["def"]["values"]) + [v0]
        yield "duplicate_enum_value", "base", False, m, {}
        m = mk()
        m.append({"p": "ext", "name": e, "def": {"kind": "ENUM", "values": [v0]}})
        yield "duplicate_enum_value", "ext", True, m, {}
        m = mk()
        m.append({"p": "ext", "name": e, "def": {"kind": "ENUM", "values": ["ZZ_NEW"]}})
        m.append({"p": "ext", "name": e, "def": {"kind": "ENUM", "values": ["ZZ_NEW"]}})
        yield "duplicate_enum_value", "across_two_extensions", True, m, {}
    for i, p in enumerate(pieces):
        if p["p"] == "type":
            m = mk()
            m.append(copy.deepcopy(p))
            yield "duplicate_type_definition", p["def"]["kind"].lower(), False, m, {}
        if p["p"] == "directive":
            m = mk()
            m.append(copy.deepcopy(p))
            yield "duplicate_directive_definition", "custom", False, m, {}
    # the same name defined twice with two different kinds, in both orders (one carrier type per kind)
    other_defs = {"OBJECT": {"kind": "OBJECT", "fields": {"a": {"type": "Int", "args": {}}}, "interfaces": []}, "INTERFACE": {"kind": "INTERFACE", "fields": {"a": {"type": "Int", "args": {}}}},
                  "ENUM": {"kind": "ENUM", "values": ["ZZ_A"]}, "INPUT": {"kind": "INPUT", "fields": {"a": {"type": "Int"}}}, "UNION": {"kind": "UNION", "members": objs[:1]}}
    seen_kinds = set()
    for i, p in enumerate(pieces):
        if p["p"] != "type" or p["def"]["kind"] in seen_kinds or p["def"]["kind"] == "SCALAR":
            continue
        seen_kinds.add(p["def"]["kind"])
        for k2, d2 in other_defs.items():
            if k2 == p["def"]["kind"] or (k2 == "UNION" and not objs):
                continue
            m = mk()
            m.append({"p": "type", "name": p["name"], "def": copy.deepcopy(d2)})
            yield "duplicate_type_definition", "%s_then_%s" % (p["def"]["kind"].lower(), k2.lower()), False, m, {}
            m = mk()
            m.insert(0, {"p": "type", "name": p["name"], "def": copy.deepcopy(d2)})
            yield "duplicate_type_definition", "%s_then_%s" % (k2.lower(), p["def"]["kind"].lower()), False, m, {}
    # (re-declaring a built-in scalar or directive is a documented way of overriding it: not a violation)
    m = mk()
    m.append({"p": "type", "name": "ZzNoImpl", "def": {"kind": "SCALAR"}})
    yield "scalar_without_implementation", "unused", False, m, {"unregistered": ["ZzNoImpl"]}
    if objs:
        m = mk()
        m.append({"p": "type", "name": "ZzNoImpl", "def": {"kind": "SCALAR"}})
        i = [k for k in find_type_pieces(pieces, objs[0])][0]
        m[i]["def"].setdefault("fields", {})["zzScalarField"] = {"type": "ZzNoImpl", "args": {}}
        yield "scalar_without_implementation", "used_by_field", False, m, {"unregistered": ["ZzNoImpl"]}

    # ---- invalid extensions
    for kw, dd in (("OBJECT", {"kind": "OBJECT", "fields": {"a": {"type": "Int", "args": {}}}}), ("ENUM", {"kind": "ENUM", "values": ["A"]}), ("INPUT", {"kind": "INPUT", "fields": {"a": {"type": "Int"}}}),
                   ("UNION", {"kind": "UNION", "members": objs[:1]}), ("INTERFACE", {"kind": "INTERFACE", "fields": {"a": {"type": "Int", "args": {}}}}), ("SCALAR", {"kind": "SCALAR", "dirs": [{"name": "deprecated", "args": []}]})):
        m = mk()
        m.append({"p": "ext", "name": "ZzNoSuchType", "def": copy.deepcopy(dd)})
        yield "invalid_extend", "unknown_target_" + kw.lower(), True, m, {}
        wrong = [n for n, d in T.items() if d["kind"] != kw and d["kind"] != "SCALAR"]
        if wrong:
            m = mk()
            m.append({"p": "ext", "name": wrong[0], "def": copy.deepcopy(dd)})
            yield "invalid_extend", "wrong_kind_%s_on_%s" % (kw.lower(), T[wrong[0]]["kind"].lower()), True, m, {}
    for n, d in T.items():
        k = d["kind"]
        base_i = [i for i in find_type_pieces(pieces, n) if pieces[i]["p"] == "type"][0]
        bd = pieces[base_i]["def"]
        if k in ("OBJECT", "INTERFACE", "INPUT") and bd.get("fields"):
            fn = list(bd["fields"])[0]
            m = mk()
            m.append({"p": "ext", "name": n, "def": {"kind": k, "fields": {fn: copy.deepcopy(bd["fields"][fn])}}})
            yield "invalid_extend", "member_already_in_base_" + k.lower(), True, m, {}
            m = mk()
            nf = {"type": "Int", "args": {}} if k != "INPUT" else {"type": "Int"}
            if k == "INTERFACE":
                continue
            m.append({"p": "ext", "name": n, "def": {"kind": k, "fields": {"zzTwice": copy.deepcopy(nf)}}})
            m.append({"p": "ext", "name": n, "def": {"kind": k, "fields": {"zzTwice": copy.deepcopy(nf)}}})
            yield "invalid_extend", "member_repeated_across_extensions_" + k.lower(), True, m, {}
        if k == "UNION" and bd.get("members"):
            m = mk()
            m.append({"p": "ext", "name": n, "def": {"kind": k, "members": [bd["members"][0]]}})
            yield "invalid_extend", "member_already_in_base_union", True, m, {}
        if k == "OBJECT" and bd.get("interfaces"):
            m = mk()
            m.append({"p": "ext", "name": n, "def": {"kind": k, "fields": {}, "interfaces": [bd["interfaces"][0]]}})
            yield "invalid_extend", "interface_already_in_base", True, m, {}

    # ---- directive hook that is not awaitable
    m = mk()
    m.append({"p": "directive", "name": "zzBadHook", "def": {"args": {}, "locations": ["FIELD_DEFINITION"]}})
    yield "non_awaitable_directive_hook", "on_field_execution", False, m, {"bad_hook": ["zzBadHook", "on_field_execution"]}
    m = mk()
    m.append({"p": "directive", "name": "zzBadHook", "def": {"args": {}, "locations": ["FIELD_DEFINITION"]}})
    yield "non_awaitable_directive_hook", "on_pre_output_coercion", False, m, {"bad_hook": ["zzBadHook", "on_pre_output_coercion"]}

    m = mk()
    m.append({"p": "directive", "name": "zzBadHook", "def": {"args": {}, "locations": ["FIELD_DEFINITION"]}})
    yield "non_awaitable_directive_hook", "sync_wrapper_around_coroutine", False, m, {"bad_hook": ["zzBadHook", "on_field_execution", "wrapped"]}
    m = mk()
    m.append({"p": "directive", "name": "zzBadHook", "def": {"args": {}, "locations": ["FIELD_DEFINITION"]}})
    yield "non_awaitable_directive_hook", "staticmethod_plain_function", False, m, {"bad_hook": ["zzBadHook", "on_field_execution", "static"]}

    # ---- syntax
    for cls, edit in (("stray_closing_brace", lambda t: t + "\n}\n"), ("leading_brace", lambda t: "{ " + t), ("unterminated_string", lambda t: t + '\n"unterminated'), ("dangling_keyword", lambda t: t + "\ntype\n"),
                      ("double_colon", lambda t: t.replace(": ", ":: ", 1)), ("stray_at", lambda t: t + "\n@@\n"), ("empty_braces", lambda t: t + "\ntype ZzE { }\n"),
                      ("empty_braces_interface", None), ("empty_braces_extend_type", None), ("empty_braces_input", None), ("empty_braces_enum", None), ("empty_arguments", None), ("empty_union", None)):
        yield "syntax_error", cls, False, mk(), {"edit": cls}


SYNTAX_EDITS = {
    "stray_closing_brace": lambda t: t + "\n}\n", "leading_brace": lambda t: "{ " + t, "unterminated_string": lambda t: t + '\n"unterminated',
    "dangling_keyword": lambda t: t + "\ntype\n", "double_colon": lambda t: t.replace(": ", ":: ", 1), "stray_at": lambda t: t + "\n@@\n", "empty_braces": lambda t: t + "\ntype ZzE { }\n",
    # empty braces / parentheses are not allowed anywhere in the type-system grammar
    "empty_braces_interface": lambda t: t + "\ninterface ZzI { }\n",
    "empty_braces_extend_type": lambda t: t + "\nextend type Query { }\n",
    "empty_braces_input": lambda t: t + "\ninput ZzIn { }\n",
    "empty_braces_enum": lambda t: t + "\nenum ZzEn { }\n",
    "empty_arguments": lambda t: t + "\ntype ZzA { a(): Int }\n",
    "empty_union": lambda t: t + "\nunion ZzU =\n",
}


def strip_refs(piece, name):
    """remove every reference to type `name` from a piece (used when deleting the query root)"""
    d = piece.get("def") or {}
    for fn, fd in list((d.get("fields") or {}).items()):
        if named(ty(fd["type"])) == name:
            fd["type"] = "Int"
    if d.get("members"):
        d["members"] = [m for m in d["members"] if m != name] or d["members"]


def known_signature(rewrite, site_class):
    for f in core.findings_for(ID):
        if f["status"] != "open":
            continue
        sig = f["signature"]
        if sig.get("rewrite") == rewrite and all(x in site_class for x in sig.get("site_class_contains", [])):
            return f["id"]
    return None


def decoy_sdls(M):
    """two other schemas of the same process in which the carrier's names (and the names the rewrites introduce) have the
    *other* kind: composite names are input objects in the first, leaf/input names are object types in the second.  What an
    earlier schema declared must not make a later, broken SDL acceptable."""
    roots = set((M.get("roots") or {}).values()) | {"Query", "Mutation", "Subscription"}
    a, b = ["type Query { a: Int }"], ["type Query { a: Int }"]
    for n, d in M["types"].items():
        if n in roots:
            continue
        (a if d["kind"] in ("OBJECT", "INTERFACE", "UNION") else b).append(("input %s { a: Int }" if d["kind"] in ("OBJECT", "INTERFACE", "UNION") else "type %s { a: Int }") % n)
    for n in ("ZzUndefined", "ZzUnknownInterface", "ZzNoSuchRoot", "ZzNoSuchType"):
        a.append("input %s { a: Int }" % n)
        b.append("type %s { a: Int }" % n)
    b.append("interface ZzUnknownInterfaceI { a: Int }")
    return ["\n".join(a) + "\n", "\n".join(b) + "\n"]


def build_decoys(sdls):
    for i, sdl in enumerate(sdls):
        try:
            run_async(create_engine(sdl, schema_name="c12decoy%d" % i))
        except Exception as e:  # noqa
            raise core.HarnessError("decoy schema does not build: %r\n%s" % (e, sdl))


def attempt(spec, standalone=False):
    """build from the mutated SDL; raises Violation if an engine results"""
    M = spec["model"]
    if standalone and spec.get("decoys"):
        clean_registry()
        build_decoys(spec["decoys"])
    text = spec["text"]
    extra = spec.get("extra") or {}
    unregistered = set(extra.get("unregistered") or ())
    for how in ("create_engine", "Engine.cook"):
        clean_registry()
        name = "c12"
        for n, d in M["types"].items():
            if d["kind"] == "SCALAR":
                Scalar(n, schema_name=name)(make_scalar(CODECS[d.get("codec", "tagged")]))
        for n in spec["directive_names"]:
            if extra.get("bad_hook") and extra["bad_hook"][0] == n:
                hook = extra["bad_hook"][1]
                how_bad = extra["bad_hook"][2] if len(extra["bad_hook"]) > 2 else "plain"
                if how_bad == "wrapped":
                    import functools

                    async def _inner(self, *a, **k):
                        return None

                    @functools.wraps(_inner)
                    def _sync(self, *a, **k):  # plain function that merely *looks* like the coroutine it wraps
                        return 1

                    impl = type("D_bad", (), {hook: _sync})
                elif how_bad == "static":
                    impl = type("D_bad", (), {hook: staticmethod(lambda *a, **k: None)})
                else:
                    impl = type("D_bad", (), {hook: lambda self, *a, **k: None})
                Directive(n, schema_name=name)(impl)
            else:
                Directive(n, schema_name=name)(type("D_" + n, (), {}))
        ctx = "\nrewrite=%s site=%s via %s\nSDL:\n%s" % (spec["rewrite"], spec["site_class"], how, text)
        if how == "create_engine":
            try:
                run_async(create_engine(text, schema_name=name))
            except Exception:  # noqa - any error is a refusal
                continue
            raise Violation(spec, "create_engine built an engine from an SDL that breaks a checked rule" + ctx, tag="%s|%s" % (spec["rewrite"], spec["site_class"]))
        e = Engine(text, schema_name=name)
        try:
            run_async(e.cook())
        except Exception:  # noqa
            try:
                resp = run_async(e.execute("{ __typename }"))
            except Exception:  # noqa
                continue
            if isinstance(resp, dict) and resp.get("data") is not None:
                raise Violation(spec, "Engine.cook() failed but the engine still answers requests: %r" % (resp,) + ctx, tag="usable_after_failed_cook")
            continue
        raise Violation(spec, "Engine.cook() succeeded on an SDL that breaks a checked rule" + ctx, tag="%s|%s" % (spec["rewrite"], spec["site_class"]))


def case(c, stats):
    M, pieces, cov = c11.make_pieces(c)
    if M.get("schema_dirs"):
        M.pop("schema_dirs")
        for p in pieces:
            if p["p"] == "schema":
                p["def"]["dirs"] = None
    st = c11.Style(c)
    st.comments = False
    # sanity: the carrier itself builds (else it is a C11 matter)
    carrier = c11.render(c, M, pieces, st, cov, mode="string", shuffle=False)
    clean_registry()
    try:
        for n, d in M["types"].items():
            if d["kind"] == "SCALAR":
                Scalar(n, schema_name="c12c")(make_scalar(CODECS[d.get("codec", "tagged")]))
        for n in M.get("directives") or {}:
            Directive(n, schema_name="c12c")(type("D_" + n, (), {}))
        run_async(create_engine(carrier["text"], schema_name="c12c"))
    except Exception:  # noqa
        stats.hist["carrier_refused(C11 matter)"] = stats.hist.get("carrier_refused(C11 matter)", 0) + 1
        return
    decoys = decoy_sdls(M)
    build_decoys(decoys)
    ms = list(mutants(M, pieces))
    if len(ms) > MAX_MUTANTS:
        stride = len(ms) / MAX_MUTANTS
        ms = [ms[int(i * stride)] for i in range(MAX_MUTANTS)]
    for rewrite, site_class, nontrivial, mp, extra in ms:
        r = c11.render(c, M, mp, st, (), mode="string", shuffle=False)
        text = r["text"]
        if extra.get("edit"):
            text = SYNTAX_EDITS[extra["edit"]](text)
        spec = {"model": M, "text": text, "rewrite": rewrite, "site_class": site_class, "extra": extra, "directive_names": sorted({p["name"] for p in mp if p["p"] == "directive"}), "decoys": decoys}
        try:
            attempt(spec)
        except Violation as v:
            fid = known_signature(rewrite, site_class)
            if fid is None:
                raise
            stats.known(fid)
        stats.case({"t": text, "x": extra}, nontrivial, ["rewrite:" + rewrite, "site:%s/%s" % (rewrite, site_class)], {"rewrite": rewrite, "site_class": site_class, "sdl": text})


def run_worker(seed, tier, index, nworkers):
    stats = core.Stats(max_samples=3)
    scale = float(os.environ.get("TFV_SCALE", "1"))
    n = max(1, int(CASES[tier] * scale / nworkers))
    v = core.run_property(case, seed, n, stats, budget_s=BUDGET[tier], shrink=True)
    out = stats.export()
    out["violations"] = [{"spec": core.jsonable(v.spec), "message": v.message}] if v else []
    return out


def replay(spec):
    attempt(spec, standalone=True)


TECHNIQUE = "fault enumeration over Hypothesis-generated valid schemas: every rewrite of an SDL violation catalogue at every site; oracle = create_engine / cook must raise and leave no usable engine"
LEVEL_TEXT = (
    "Each generated valid schema (with extensions) is mutated by every applicable (rewrite, site) of a catalogue covering all rule families "
    "the statement lists; each mutated SDL must make create_engine and Engine.cook fail, and a failed cook must leave the Engine unable "
    "to answer requests."
)
LEVEL_NOTE = "trusts: that each catalogue rewrite breaks its rule; the carrier generator (a carrier that does not build is counted and skipped, it belongs to C11)"
