"""C02 - field failures are contained: null propagation and error accounting."""
import copy
import itertools
import os

from tfv import core
from tfv.core import Violation, run_async
from tfv.data import RefProvider, Tree
from tfv.model import canon, kind_of, named, possible_types, print_document, ty
from tfv.props import c01
from tfv.ref import Executor, Fault

ID = "C02"
LEVEL = "fault_enumeration"
WORKERS = {"quick": 8, "thorough": 16}
CASES = {"quick": 700, "thorough": 20000}  # carriers
BUDGET = {"quick": 50, "thorough": 540}
MAX_SINGLES = 300
MAX_PAIRS = 60
RULE = (
    "carrier = generated valid request (C01 generator, all fields harness-resolved, <= ~40 executed field instances); "
    "fault sites = every executed field instance, every list item and every abstract value found by the reference run; "
    "every applicable single fault (raise, raise library error with extensions, exception returned as value, null at "
    "non-null, unserialisable leaf, non-list for list, unknown / impossible / non-object runtime type) is injected one "
    "at a time (capped at 300 per carrier), then up to 60 generated pairs/triples; oracle = reference executor with fault "
    "semantics: identical data, error paths a sub-multiset of the injected failures, every visible nulled position explained, "
    "message/locations/extensions well-formed and inside the failing field's text. Distinct = SHA-1 of (carrier, fault set); "
    "non-trivial = the nulled position differs from the fault site (a non-null layer was crossed) or the site is a list item."
    " A tenth of the cases plant the failures inside the events of a subscription (C14's machinery): each event's response accounts for its own failures only."
    " Fault site output_hook_raises: the output hook of a directive on the value's type / enum value raises a library error (message and extensions must be preserved)."
)
ASSUMPTIONS = c01.ASSUMPTIONS + ["faults are injected only at harness-resolved fields (all fields in C02 carriers)"]
DOC_OPTS = {"max_nodes": 16, "max_frags": 3}

BAD_LEAF = {
    "Int": ["not-a-number", 2 ** 31, 1.5],
    "Float": ["abc", float("inf")],
    "Boolean": ["yes"],
    "String": [{"$bad": "unserialisable"}],
    "ID": [{"$bad": "object"}, 1.5],
}


def bad_leaf_values(schema, name):
    k = kind_of(schema, name)
    if k == "ENUM":
        return ["NOT_A_VALUE", 3]
    if name in BAD_LEAF:
        return BAD_LEAF[name]
    codec = schema["types"][name].get("codec", "tagged")
    return [123, "w:notinternal"] if codec == "tagged" else ["x", 1.5]


def null_producing_values(schema, name):
    """non-null resolver values that the (harness) scalar serialises to null"""
    if name in schema["types"] and schema["types"][name]["kind"] == "SCALAR":
        return ["i:$null"] if schema["types"][name].get("codec", "tagged") == "tagged" else [424242]
    return []


def value_faults(schema, t, depth=0):
    """[(kind label, Fault)] faults applicable to a value position of type t (parsed)"""
    out = []
    if t[0] == "NN":
        out.append(("null_at_non_null", Fault("value", None)))
        t = t[1]
    if t[0] == "L":
        out.append(("non_list_for_list", Fault("value", 42)))
        out.append(("non_list_for_list", Fault("value", {"a": 1})))
        return out
    name = t[1]
    if kind_of(schema, name) in ("SCALAR", "ENUM"):
        for b in bad_leaf_values(schema, name):
            out.append(("unserialisable_leaf", Fault("value", b)))
        for b in null_producing_values(schema, name):
            out.append(("coerced_to_null", Fault("value", b)))
    return out


def fault_sites(schema, ex):
    """-> list of (label, key, Fault, is_item) from a fault-free reference run"""
    sites = []
    n_user = [0]

    def user_fault(duck=False, located=False):
        n_user[0] += 1
        payload = {"message": "user message %d" % n_user[0], "extensions": {"code": n_user[0], "tag": "x"}}
        if located:
            payload["located"] = True  # the resolver sets the error's `path` itself (to the right value)
        if duck:
            payload["duck"] = True  # raised as a self-rendering application error that is not a TartifletteError
        return Fault("raise_tartiflette", payload)

    def items(path, t, res):
        # res is a list value of list type t (nullable form)
        if not isinstance(res, list):
            return
        inner = t[1]
        for i, item in enumerate(res):
            ip = path + (i,)
            sites.append(("item:return_exception", ip, Fault("return_exception"), True))
            for lab, f in value_faults(schema, inner):
                sites.append(("item:" + lab, ip, f, True))
            ni = inner[1] if inner[0] == "NN" else inner
            if ni[0] == "L" and item is not None:
                items(ip, ni, item)
            elif ni[0] == "N" and kind_of(schema, ni[1]) in ("INTERFACE", "UNION") and isinstance(item, dict):
                abstract_sites(ni[1], item)

    def abstract_sites(aname, node):
        key = ("$type", node.get("_nid"))
        poss = possible_types(schema, aname)
        others = [n for n, d in schema["types"].items() if d["kind"] == "OBJECT" and n not in poss]
        sites.append(("type:unknown_runtime_type", key, Fault("type", "NoSuchType"), False))
        if others:
            sites.append(("type:impossible_runtime_type", key, Fault("type", others[0]), False))
        nonobj = [n for n, d in schema["types"].items() if d["kind"] in ("ENUM", "INPUT", "INTERFACE", "UNION")]
        if nonobj:
            sites.append(("type:non_object_runtime_type", key, Fault("type", nonobj[0]), False))

    # a nullable variable carrying an explicit null (fails the fields whose non-null argument it feeds)
    for vd in getattr(ex, "op", {}).get("vars") or ():
        if not vd["type"].endswith("!") and named(ty(vd["type"])) != "Boolean":  # Boolean variables may drive @skip/@include, whose failure mode the statement does not cover
            sites.append(("var_null", ("$var", vd["name"]), Fault("var_null"), False))
    for path, (tstr, res, coord) in ex.results.items():
        t = ty(tstr)
        sites.append(("raise", path, Fault("raise"), False))
        sites.append(("raise_tartiflette", path, user_fault(), False))
        sites.append(("raise_coercible", path, user_fault(duck=True), False))
        sites.append(("raise_located", path, user_fault(located=True), False))
        tn0 = t[1] if t[0] == "NN" else t
        if tn0[0] == "N" and res is not None and not isinstance(res, Fault):
            td = schema["types"].get(tn0[1]) or {}
            governed = any(d["name"] == "sd" for d in td.get("dirs") or ())
            if td.get("kind") == "ENUM" and isinstance(res, str):
                governed = governed or any(d["name"] == "sd" for d in (td.get("value_dirs") or {}).get(res) or ())
            if governed:
                # the output hook of a directive on the value's type / enum value raises a library error
                sites.append(("output_hook_raises", ("$outhook",) + tuple(path), user_fault(), False))
        sites.append(("return_exception", path, Fault("return_exception"), False))
        for lab, f in value_faults(schema, t):
            sites.append((lab, path, f, False))
        tn = t[1] if t[0] == "NN" else t
        if tn[0] == "L" and res is not None:
            items(path, tn, res)
        elif tn[0] == "N" and kind_of(schema, tn[1]) in ("INTERFACE", "UNION") and isinstance(res, dict):
            abstract_sites(tn[1], res)
    return sites


def shared_plain_set(c, sites):
    """2..4 positions (resolvers that raise, values / list items that are exception objects) failing with one and the same
    ordinary exception object; [] when the request has fewer than two such positions"""
    pool = {}
    for s in sites:
        if s[0] in ("raise", "item:return_exception"):
            pool.setdefault(s[1], s)
    keys = list(pool)
    if len(keys) < 2:
        return []
    chosen = c.shuffle(keys)[: c.int(2, 4)]
    return [("shared_plain", k, Fault("shared_plain"), pool[k][3]) for k in chosen]


def pick_fault(c, sites):
    """one fault site; when a long list is present, often one of its far items"""
    far = [x for x in sites if x[1] and isinstance(x[1][-1], int) and x[1][-1] >= 128]
    if far and c.maybe(50):
        return far[c.int(0, len(far) - 1)]
    return sites[c.int(0, len(sites) - 1)]


def fault_to_json(f):
    return {"kind": f.kind, "payload": core.jsonable(f.payload)}


def fault_from_json(j):
    p = j.get("payload")
    if isinstance(p, dict) and "$float" in p:
        p = float(p["$float"])
    return Fault(j["kind"], p)


def key_to_json(k):
    return list(k)


def install(tree, faults, for_reference=False):
    """for_reference: a failure raised by an output hook at a position is, for the specification, a failure of that position"""
    tree.faults = {}
    faults = [(tuple(k), f) for k, f in faults if f.kind != "var_null"]
    # (a position whose resolver fails never reaches its output hooks: resolver-level faults are installed last and win)
    for key, f in sorted(faults, key=lambda kf: not (kf[0] and kf[0][0] == "$outhook")):
        if for_reference and key and key[0] == "$outhook":
            key = key[1:]
        tree.faults[key] = f


def effective_variables(spec):
    """the request's variables with the `$var` faults applied"""
    out = dict(spec.get("variables") or {})
    for key, f in spec.get("faults") or ():
        if key and key[0] == "$var":
            out[key[1]] = None
    return out


def visible(data, target):
    """is the position `target` (response path) present in data (all ancestors non-null)?"""
    if target is None:
        return True
    x = data
    for k in target[:-1]:
        if x is None:
            return False
        try:
            x = x[k]
        except (KeyError, IndexError, TypeError):
            return False
    return x is not None


def compare_response(spec, printed, resp, expected, ref_errors, ex, ctx):
    """data + error accounting of one response against the reference (C02 semantics); raises Violation"""
    if c01.ordered(resp.get("data")) != c01.ordered(expected):
        raise Violation(spec, "data under faults differs from the reference" + ctx, tag="data")
    errs = resp.get("errors")
    if ref_errors and not errs:
        raise Violation(spec, "failures happened but no errors are reported" + ctx, tag="noerrors")
    if not ref_errors and errs:
        raise Violation(spec, "errors reported although nothing failed" + ctx, tag="spurious")
    errs = errs or []
    # shape + location
    ref_by_path = {}
    for e in ref_errors:
        ref_by_path.setdefault(tuple(e["path"]), []).append(e)
    got_by_path = {}
    for e in errs:
        if not isinstance(e, dict) or not isinstance(e.get("message"), str) or not isinstance(e.get("path"), list):
            raise Violation(spec, "malformed error entry %r%s" % (e, ctx), tag="shape")
        p = tuple(e["path"])
        got_by_path.setdefault(p, []).append(e)
        if p not in ref_by_path:
            raise Violation(spec, "error entry with path %r does not correspond to any injected failure%s" % (e["path"], ctx), tag="spurious")
        fp = p
        while fp and isinstance(fp[-1], int) and fp not in ex.field_nodes:
            fp = fp[:-1]
        node_ids = ex.field_nodes.get(fp)
        locs = e.get("locations")
        if not isinstance(locs, list) or not locs:
            raise Violation(spec, "error entry without locations %r%s" % (e, ctx), tag="locations")
        for loc in locs:
            if not (isinstance(loc, dict) and isinstance(loc.get("line"), int) and isinstance(loc.get("column"), int)):
                raise Violation(spec, "malformed location %r%s" % (loc, ctx), tag="locations")
            if node_ids and not any(printed.inside(i, loc["line"], loc["column"]) for i in node_ids):
                raise Violation(spec, "location %r of error at %r lies outside the text of the failing field%s" % (loc, e["path"], ctx), tag="locations")
        kinds = {r["kind"] for r in ref_by_path[p]}
        if kinds == {"raise_tartiflette"}:
            want = ref_by_path[p][0]["detail"]
            if e["message"] != want["message"] or e.get("extensions") != want["extensions"]:
                raise Violation(spec, "library-error message/extensions not preserved: got %r want %r%s" % (e, want, ctx), tag="usererror")
        elif "extensions" in e and not e["extensions"]:
            raise Violation(spec, "empty extensions present %r%s" % (e, ctx), tag="shape")
    for p, lst in got_by_path.items():
        if len(lst) > len(ref_by_path[p]):
            if {r["kind"] for r in ref_by_path[p]} == {"argument"} and len({canon(core.jsonable(e.get("locations"))) for e in lst}) == len(lst):
                continue  # several arguments of one field failed their coercion: one entry each, located at different arguments
            raise Violation(spec, "failure at %r reported %d times%s" % (list(p), len(lst), ctx), tag="duplicate")
    # every visible nulled position is explained
    targets = {}
    for e in ref_errors:
        tkey = None if e["target"] is None else tuple(e["target"])
        targets.setdefault(tkey, []).append(tuple(e["path"]))
    for tkey, paths in targets.items():
        if visible(expected, None if tkey is None else list(tkey)) or tkey is None:
            if not any(p in got_by_path for p in paths):
                raise Violation(spec, "nulled position %r is not explained by any error (expected one of paths %r)%s" % (tkey, paths, ctx), tag="unexplained")


def check_faulted(spec, h, printed=None):
    """spec has 'faults': [[key, faultjson]..]; raises Violation"""
    schema = spec["schema"]
    faults = [(tuple(k), fault_from_json(f)) for k, f in spec["faults"]]
    tree = Tree(schema, None, copy.deepcopy(spec["tree"]))
    install(tree, faults, for_reference=True)
    plan = spec.get("plan") or {}
    no_echo = () if plan.get("custom_default_resolver") else (plan.get("default_fields") or ())  # as c01.reference
    ex = Executor(schema, spec["doc"], RefProvider(tree, no_echo=no_echo))
    op = ex.get_operation(spec["op"])
    root = schema["roots"][op["type"]]
    variables = effective_variables(spec)
    expected = ex.execute(spec["op"], variables, root_value=tree.root(root))
    ref_errors = ex.final_errors()
    if tree.undrawn:
        raise core.HarnessError("reference asked for undrawn data under faults")
    # engine
    etree = Tree(schema, None, copy.deepcopy(spec["tree"]))
    install(etree, faults)
    printed, resp = run_async(c01.run_request(h, dict(spec, variables=variables), etree, root))
    ctx = "\nfaults=%r\nquery:\n%s\nvariables=%r op=%r\nresponse=%s\nreference data=%s\nreference errors=%r" % (
        [(k, f.kind, f.payload) for k, f in faults], printed.text, spec["variables"], spec["op"], str(resp)[:1500], c01.ordered(expected), [(e["path"], e["kind"], e["target"]) for e in ref_errors])
    compare_response(spec, printed, resp, expected, ref_errors, ex, ctx)
    # resolver calls: subset of the fault-free expectation, no duplicates
    seen = set()
    for pth, co, nid, args, okctx in h.calls:
        if (pth, co) in seen:
            raise Violation(spec, "resolver %s at %r called twice%s" % (co, pth, ctx), tag="calls")
        seen.add((pth, co))
    nontrivial = any((e["target"] is None or list(e["target"]) != list(e["path"])) or any(isinstance(k, int) for k in e["path"][-1:]) for e in ref_errors)
    return nontrivial


def sub_case(c, stats):
    """contained failures inside subscription events (C14's machinery, plain consumption): what one event's execution
    reports must not reach the response of another event"""
    from tfv.impl import clean_registry
    from tfv.props import c14

    schema, plan = c01.build_schema(c, {"subscription": True, "max_objects": 3})
    plan["default_fields"] = []
    clean_registry()
    h = c14.SubHarness(schema, plan, None)
    run_async(h.build())
    for _ in range(3):
        spec = c14.build_request(c, schema, plan)
        c14.run_pattern(c, h, schema, spec, "plain")
        stats.case({"d": spec["doc"], "v": spec["variables"], "e": spec["events"], "f": spec["faults"], "s": schema["types"]}, len(spec["events"]) >= 2 and bool(spec["faults"]),
                   ["subscription_events", "events:%d" % len(spec["events"]), "faults:%d" % len(spec["faults"])],
                   {"query": print_document(spec["doc"]).text, "events": len(spec["events"]), "faults": spec["faults"]})


def case(c, stats):
    if c.maybe(10):
        return sub_case(c, stats)
    schema, plan = c01.build_schema(c)
    plan["default_fields"] = []
    plan["custom_default_resolver"] = False
    plan["tr_engine"] = True  # every abstract position is answered by a harness type resolver (so it can be faulted)
    kw = {"coerce_list_concurrently": c.maybe(70), "coerce_parent_concurrently": c.maybe(70)}
    plan["engine_kwargs"] = kw
    plan["inherit_parent_concurrency"] = True
    h = run_async(c01.make_harness(schema, plan, kw))
    spec, gstats = c01.build_request(c, schema, plan, DOC_OPTS)
    tree, ex, expected, root = c01.reference(spec, c)
    if len(ex.calls) > 45:
        return
    sites = fault_sites(schema, ex)
    singles = sites
    if len(singles) > MAX_SINGLES:
        stride = len(singles) / MAX_SINGLES
        singles = [singles[int(i * stride)] for i in range(MAX_SINGLES)]
        stats.hist["carriers_capped"] = stats.hist.get("carriers_capped", 0) + 1
    sets = [[s] for s in singles]
    if sites:
        for _ in range(min(MAX_PAIRS, len(sites))):
            k = c.weighted([(6, 2), (3, 3), (1, 4)])
            chosen = {}
            for _ in range(k):
                s = sites[c.int(0, len(sites) - 1)]
                chosen[s[1]] = s
            # (an output-hook failure is combined only with failures at other positions: whether the hook still runs after a
            # resolver-level fault at its own position depends on the kind of that fault)
            for key in [k for k in chosen if k and k[0] == "$outhook" and tuple(k[1:]) in chosen]:
                del chosen[key]
            sets.append(list(chosen.values()))
        for _ in range(2):
            fs = shared_plain_set(c, sites)
            if fs:
                sets.append(fs)
    base = {k: v for k, v in spec.items()}
    for fs in sets:
        fspec = dict(base)
        fspec["faults"] = [[key_to_json(key), fault_to_json(f)] for _, key, f, _ in fs]
        nontrivial = check_faulted(fspec, h)
        labels = sorted({"fault:" + lab for lab, *_ in fs}) + (["multi_fault"] if len(fs) > 1 else [])
        stats.case({"doc": spec["doc"], "schema": schema, "faults": fspec["faults"], "vars": spec["variables"]}, nontrivial, labels,
                   {"query": print_document(spec["doc"]).text, "faults": [(lab, list(key)) for lab, key, _, _ in fs]})


def run_worker(seed, tier, index, nworkers):
    stats = core.Stats(max_samples=3)
    scale = float(os.environ.get("TFV_SCALE", "1"))
    n = max(1, int(CASES[tier] * scale / nworkers))
    v = core.run_property(case, seed, n, stats, budget_s=BUDGET[tier], shrink=True)
    out = stats.export()
    out["violations"] = [{"spec": core.jsonable(v.spec), "message": v.message}] if v else []
    return out


def replay(spec):
    if "events" in spec:
        from tfv.props import c14

        return c14.replay(spec)
    plan = spec["plan"]
    h = run_async(c01.make_harness(spec["schema"], plan, plan.get("engine_kwargs")))
    check_faulted(spec, h)


TECHNIQUE = "fault injection enumerated over Hypothesis-generated requests: every single fault point of every carrier, plus generated fault subsets, against a reference executor with the specification's error-propagation semantics"
LEVEL_TEXT = (
    "Every executed field instance, list item and abstract value of each generated request is a fault site; every applicable "
    "failure kind is injected there one at a time (exhaustive per carrier up to a cap), followed by generated pairs/triples. "
    "The response must equal the reference's data (nearest nullable ancestor nulled, nothing else changed) and the errors list "
    "must account for exactly the failures (paths with list indices, locations inside the failing field, preserved user message/extensions)."
)
LEVEL_NOTE = "trusts: reference executor's propagation semantics (tfv/ref.py), carrier generator, stand-in parser's source locations (pinned by upstream tests)"
