"""C15 - concurrent requests on one engine do not influence each other."""
import asyncio
import copy
import os

from tfv import core
from tfv.core import Violation, run_async
from tfv.data import Tree
from tfv.gen import add_schema_directive
from tfv.impl import RequestState
from tfv.model import canon, print_document
from tfv.mutate import mutants
from tfv.props import c01, c02, c08
from tfv.sched import Deadlock, Sched, explore

ID = "C15"
LEVEL = "exploration"
WORKERS = {"quick": 8, "thorough": 16}
CASES = {"quick": 400, "thorough": 10000}  # engines; each: one multiset of 2-6 requests x schedules
BUDGET = {"quick": 50, "thorough": 560}
SCHEDULES = {"quick": 80, "thorough": 1500}
RULE = (
    "case = one engine (default query cache) and a multiset of 2-6 requests: same or different documents, variables, operation names and "
    "context objects; succeeding, failing (injected fault), invalid (mutated) and repeated ones x interleavings of all their resolver "
    "gates (depth-first enumeration incl. bursts; exhaustive when within the per-case budget, otherwise the budget plus Hypothesis-drawn "
    "scripts). Oracle = differential: every response equals (canonical JSON) the response the same request gave when run alone on that "
    "engine beforehand; every resolver call landed in its own request's log with that request's context, arguments and data; the solo "
    "runs repeated afterwards are unchanged. Absolute anchors under the differential comparison: a valid fault-free request run alone must "
    "give the reference executor's data; introspection requests (schema-owned lists, both includeDeprecated views, fields hidden by "
    "@nonIntrospectable, deprecated, or visible only to even-numbered callers through an on_introspection hook) must list exactly the "
    "fields visible to their caller; in 30% of the cases a directive on the schema wraps every execution and refuses every third "
    "caller by raising. Distinct = SHA-1 of (requests, schedule); non-trivial = gates of >= 2 requests were "
    "released alternately (A, B, A)."
    " Delivered argument dictionaries are modified in place after every request."
)
ASSUMPTIONS = c08.ASSUMPTIONS
DOC_OPTS = {"max_nodes": 6, "max_frags": 3, "max_sels": 3, "max_depth": 3, "w_spread": 25}


def introspection_request(c, schema, like):
    """a request selecting __type / __schema / __typename at the root under a drawn alias and position"""
    def f(name, alias=None, args=None, sels=None):
        return {"k": "field", "alias": alias, "name": name, "args": args or [], "dirs": [], "sels": sels, "id": None}

    def b():
        return [["includeDeprecated", ["bool", c.maybe(50)]]] if c.maybe(70) else []

    def type_sels():
        # lists owned by the schema (fields, args, enum values, ...), with and without deprecated members
        out = [f("name"), f("kind")]
        if c.maybe(80):
            sub = [f("name"), f("isDeprecated")] + ([f("args", None, [], [f("name"), f("defaultValue")])] if c.maybe(50) else []) + ([f("type", None, [], [f("name"), f("kind")])] if c.maybe(50) else [])
            if c.maybe(50):
                # both views of the same list in one request
                first = c.maybe(50)
                out.append(f("fields", "fa", [["includeDeprecated", ["bool", first]]], sub))
                out.append(f("fields", "fb", [["includeDeprecated", ["bool", not first]]] if c.maybe(50) or not first else [], copy.deepcopy(sub)))
            else:
                out.append(f("fields", None, b(), sub))
        if c.maybe(40):
            out.append(f("enumValues", None, b(), [f("name"), f("isDeprecated")]))
        for extra in ("inputFields", "interfaces", "possibleTypes"):
            if c.maybe(25):
                out.append(f(extra, None, [], [f("name")]))
        return out

    sels = [f("__typename", alias=c.choice([None, "zzt"]))] if c.maybe(50) else []
    for _ in range(c.int(1, 2)):
        alias = "zzi%d" % c.int(0, 99)
        k = c.weighted([(5, "type"), (2, "schema_root"), (3, "schema_types")])
        if k == "type":
            decorated = [tn for tn, td in schema["types"].items() if td["kind"] == "OBJECT" and any(fd.get("dirs") for fd in td["fields"].values())]
            tname = c.choice(decorated) if decorated and c.maybe(60) else c.choice(list(schema["types"]) + ["Int", "Nope"])
            sels.append(f("__type", alias, [["name", ["str", tname]]], type_sels()))
        elif k == "schema_root":
            sels.append(f("__schema", alias, [], [f("queryType", None, [], [f("name")])]))
        else:
            sels.append(f("__schema", alias, [], [f("types", None, [], type_sels()), f("directives", None, [], [f("name"), f("args", None, [], [f("name")])])]))
    sels = c.shuffle(sels)
    doc = {"defs": [{"k": "op", "type": "query", "name": None, "vars": [], "dirs": [], "sels": sels}]}
    r = copy.deepcopy(like)
    r.pop("expected", None)
    r.update(doc=doc, op=None, variables={}, faults=[], kind="introspection")
    return r


def check_introspection(schema, req, rid, resp):
    """absolute oracle for the `fields` lists of introspection requests: exactly the declared fields, in order, minus
    @nonIntrospectable ones, minus @deprecated ones unless includeDeprecated, minus the ones this caller may not see"""
    if req.get("kind") != "introspection" or any(d["name"] == "nonIntrospectable" for d in schema.get("schema_dirs") or ()):
        return None
    if any(d["name"] == "sd" for d in schema.get("schema_dirs") or ()) and rid % 3 == 2:
        return None  # this caller is refused by the schema-level hook (plan schema_hook_denies)
    if not isinstance(resp, dict) or "errors" in resp or not isinstance(resp.get("data"), dict):
        if rid % 2 == 1:
            return None  # a caller that may not see a *type* can meet a null at a non-null position (e.g. __Schema.queryType)
        return "an introspection request on an introspectable schema is answered with errors: %s" % (str(resp)[:600],)

    def visible(tname, include_deprecated):
        td = schema["types"].get(tname)
        if td is None or td["kind"] not in ("OBJECT", "INTERFACE"):
            return None
        out = []
        for fn, fd in td["fields"].items():
            names = [d["name"] for d in fd.get("dirs") or ()]
            if "nonIntrospectable" in names or ("deprecated" in names and not include_deprecated) or ("sd" in names and rid % 2 == 1):
                continue
            out.append(fn)
        return out

    def check_type(tsel, tval):
        if not isinstance(tval, dict) or "name" not in tval:
            return None
        for s in tsel:
            if s["name"] == "fields":
                inc = any(a[0] == "includeDeprecated" and a[1] == ["bool", True] for a in s["args"])
                want = visible(tval["name"], inc)
                got = tval.get(s.get("alias") or "fields")
                if want is not None and [x.get("name") for x in got or ()] != want:
                    return "%s.fields(includeDeprecated: %s) for caller %d lists %r, the schema declares %r as visible" % (tval["name"], inc, rid, [x.get("name") for x in got or ()], want)
        return None

    for sel in req["doc"]["defs"][0]["sels"]:
        val = resp["data"].get(sel.get("alias") or sel["name"])
        if sel["name"] == "__type":
            msg = check_type(sel["sels"], val)
            if msg:
                return msg
        elif sel["name"] == "__schema":
            for s in sel["sels"]:
                if s["name"] == "types":
                    for tval in (val or {}).get("types") or ():
                        msg = check_type(s["sels"], tval)
                        if msg:
                            return msg
    return None


def response_keys(doc):
    keys = set()

    def walk(sels):
        for x in sels or ():
            if x["k"] == "field":
                keys.add(x.get("alias") or x["name"])
            walk(x.get("sels"))

    for d in doc["defs"]:
        if d["k"] in ("op", "frag"):
            walk(d["sels"])
    return keys


def gen_requests(c, schema, plan):
    reqs = []
    n = c.int(2, 5)
    base = None
    while len(reqs) < n:
        kind = c.weighted([(5, "new"), (3, "same_doc_other_vars"), (2, "repeat"), (2, "invalid"), (2, "faulty"), (2, "introspection")]) if reqs else "new"
        if kind == "introspection":
            reqs.append(introspection_request(c, schema, reqs[0]))
            continue
        if kind == "new" or base is None:
            spec, _ = c01.build_request(c, schema, plan, DOC_OPTS)
            tree, ex, expected, root = c01.reference(spec, c)
            if len(ex.calls) > 6:
                continue
            spec["faults"] = []
            spec["root"] = root
            spec["kind"] = "new"
            spec["expected"] = core.jsonable(expected)
            base = (spec, ex)
            reqs.append(spec)
        elif kind == "repeat":
            r = copy.deepcopy(c.choice(reqs))
            r["kind"] = "repeat"
            reqs.append(r)
        elif kind == "same_doc_other_vars":
            src = c.choice([r for r in reqs if r["kind"] in ("new", "same_doc_other_vars")])
            r = copy.deepcopy(src)
            r["tree"] = None
            # other variables / other operation of the same document, fresh data
            from tfv.gen import DocGen
            ops = [d for d in r["doc"]["defs"] if d["k"] == "op"]
            op = c.choice(ops)
            r["op"] = op.get("name")
            dg = DocGen(c, schema)
            dg.vars = {v["name"]: dict(v, **{"must_provide": True}) for v in op.get("vars") or ()}
            for vn, v in dg.vars.items():
                v["nn_use"] = True
            r["variables"] = dg.variable_values(op)
            tree, ex, expected, root = c01.reference(r, c)
            if len(ex.calls) > 6:
                continue
            r["root"] = root
            r["faults"] = []
            r["kind"] = "same_doc_other_vars"
            r["expected"] = core.jsonable(expected)
            reqs.append(r)
        elif kind == "invalid":
            src = c.choice([r for r in reqs if r["kind"] != "invalid"])
            ms = list(mutants(schema, src["doc"]))
            if not ms:
                continue
            # rule first, then a site: every validation rule gets the same share, however many sites the document offers
            rewrite = c.choice(sorted({m[0] for m in ms}))
            ms = [m for m in ms if m[0] == rewrite]
            rewrite, site, _, mdoc = ms[c.int(0, len(ms) - 1)]
            r = copy.deepcopy(src)
            r.pop("expected", None)
            r["doc"] = mdoc
            r["kind"] = "invalid"
            r["invalid"] = True  # survives being repeated: validation errors carry field names, not response keys
            r["faults"] = []
            reqs.append(r)
        else:
            src, ex = base
            sites = [x for x in c02.fault_sites(schema, ex)]
            if not sites:
                continue
            lab, key, f, _ = sites[c.int(0, len(sites) - 1)]
            r = copy.deepcopy(src)
            r.pop("expected", None)
            r["faults"] = [[list(key), c02.fault_to_json(f)]]
            r["kind"] = "faulty"
            reqs.append(r)
    return reqs


def new_state(schema, req, rid):
    tree = Tree(schema, None, copy.deepcopy(req["tree"]))
    c02.install(tree, [(tuple(k), c02.fault_from_json(f)) for k, f in req.get("faults") or ()])
    return RequestState(tree, None, rid)


def execute(h, req, rs, text):
    return h.engine.execute(
        text, operation_name=req["op"], context=rs.ctx, variables=copy.deepcopy(c02.effective_variables(req)),
        initial_value=rs.mat.obj(rs.tree.root(req["root"])),
    )


def canon_response(resp):
    """canonical form for comparison: the order of the entries of `errors` follows resolver completion order,
    which the scheduler varies on purpose, so errors are compared as a multiset"""
    j = core.jsonable(resp)
    if isinstance(j, dict) and isinstance(j.get("errors"), list):
        j = dict(j, errors=sorted(j["errors"], key=canon))
    return canon(j)


def summarize(rs):
    calls = sorted(canon([list(p), co, nid, core.jsonable(args), ok]) for p, co, nid, args, ok in rs.calls)
    return {"calls": calls, "type_calls": sorted(canon([list(p), a, co, lv]) for p, a, co, lv in rs.type_calls), "unexpected": len(rs.unexpected), "hooks": sorted(map(str, rs.hooks))}


def solo(h, schema, reqs, texts):
    out = []
    spec_plan = h.plan
    for i, req in enumerate(reqs):
        rs = new_state(schema, req, i)
        h.gate = None
        resp = run_async(execute(h, req, rs, texts[i]))
        h.scramble_live()  # what resolvers were handed is modified in place once the request is over
        out.append((canon_response(resp), summarize(rs)))
        denied = bool(reqs and spec_plan.get("schema_hook_denies")) and i % 3 == 2
        if "expected" in req and not req.get("faults") and not req.get("invalid") and not denied:
            # absolute anchor of the differential comparison: a valid, fault-free request run alone gives the reference's data
            if not isinstance(resp, dict) or "errors" in resp or c01.ordered(resp.get("data")) != c01.ordered(req["expected"]):
                raise Violation({"schema": schema, "requests": reqs}, "request %d (%s) run alone is not answered with the reference's data (state left by an earlier request?)\n engine:    %s\n reference: %s\nquery:\n%s" % (
                    i, req["kind"], str(resp)[:1200], c01.ordered(req["expected"])[:1200], texts[i]), tag="solo_reference")
        msg = check_introspection(schema, req, i, resp)
        if msg:
            raise Violation({"schema": schema, "requests": reqs}, "request %d run alone: %s\nquery:\n%s" % (i, msg, texts[i]), tag="introspection")
        keys = response_keys(req["doc"])
        for e in (resp.get("errors") or ()) if (isinstance(resp, dict) and not req.get("invalid") and not denied) else ():
            pth = e.get("path") if isinstance(e, dict) else None
            if isinstance(pth, list) and pth and pth[0] not in keys:
                raise Violation({"schema": schema, "requests": reqs}, "request %d run alone reports an error at path %r, which is not a response key of its own document %r (state left by an earlier request?)" % (i, pth, sorted(keys)), tag="foreign_path")
        core.scribble(resp, "solo-%d" % i)
    return out


def alternation(released):
    rids = [l[2] for l in released if l[0] == "resolver" and len(l) > 2]
    for a, b, c_ in zip(rids, rids[1:], rids[2:]):
        if a != b and c_ == a:
            return True
    return False


def check(spec, h, budget, scripts, stats=None):
    schema, reqs = spec["schema"], spec["requests"]
    texts = [print_document(r["doc"]).text for r in reqs]
    before = solo(h, schema, reqs, texts)
    states = {}

    def make(s):
        h.gate = s.gate
        states["rs"] = [new_state(schema, r, i) for i, r in enumerate(reqs)]

        async def all_():
            return await asyncio.gather(*[execute(h, r, states["rs"][i], texts[i]) for i, r in enumerate(reqs)])

        return all_()

    def on_result(s, resps, left, script):
        h.scramble_live()
        sspec = dict(spec, schedule=list(script))
        for i, resp in enumerate(resps):
            got = canon_response(resp)
            if not reqs[i].get("invalid") and not (h.plan.get("schema_hook_denies") and i % 3 == 2):  # (what a refusing schema-level hook raised is reported under the root type's name)
                keys = response_keys(reqs[i]["doc"])
                for e in (resp.get("errors") or ()) if isinstance(resp, dict) else ():
                    pth = e.get("path") if isinstance(e, dict) else None
                    if isinstance(pth, list) and pth and pth[0] not in keys:
                        raise Violation(sspec, "request %d reports an error at path %r, which is not a response key of its own document %r (leaked from another request?)\nresponse=%s" % (i, pth, sorted(keys), got[:800]), tag="foreign_path")
            msg = check_introspection(schema, reqs[i], i, resp)
            if msg:
                raise Violation(sspec, "request %d: %s\nquery:\n%s" % (i, msg, texts[i]), tag="introspection")
            core.scribble(resp, "concurrent-%d" % i)
            if got != before[i][0]:
                raise Violation(sspec, "request %d (%s) answered differently when run concurrently\n alone:      %s\n concurrent: %s\nschedule=%r released=%r\nrequests:\n%s" % (
                    i, reqs[i]["kind"], before[i][0][:1500], got[:1500], script, s.released, "\n---\n".join("%d: op=%r vars=%r faults=%r\n%s" % (j, r["op"], r["variables"], r.get("faults"), texts[j]) for j, r in enumerate(reqs))), tag="response")
            summ = summarize(states["rs"][i])
            if summ != before[i][1]:
                raise Violation(sspec, "request %d: resolver activity differs when run concurrently (context / variables / data leaked between requests?)\n alone: %r\n concurrent: %r\nschedule=%r" % (i, before[i][1], summ, script), tag="calls")
        if s.pending or s.unfinished() or left:
            raise Violation(sspec, "dangling work after all requests returned: pending=%r unfinished=%r tasks=%r" % (s.pending, s.unfinished(), left), tag="dangling")
        if stats is not None:
            stats.case({"r": [(r["doc"], r["op"], r["variables"], r.get("faults")) for r in reqs], "s": schema["types"], "sched": [k for _, k in s.trace]}, alternation(s.released),
                       ["requests:%d" % len(reqs)] + sorted({"kind:" + r["kind"] for r in reqs}),
                       {"requests": [{"kind": r["kind"], "op": r["op"], "variables": r["variables"], "query": texts[i]} for i, r in enumerate(reqs)], "released": [list(map(str, l)) for l in s.released]})

    try:
        runs, exhaustive = run_async(explore(make, budget, on_result, True, scripts))
    except Deadlock as e:
        raise Violation(spec, "concurrent requests do not terminate: %s" % e, tag="deadlock")
    finally:
        h.gate = None
    after = solo(h, schema, reqs, texts)
    if after != before:
        i = [k for k in range(len(reqs)) if after[k] != before[k]][0]
        raise Violation(spec, "request %d answers differently after the concurrent batch than before it\n before: %s\n after:  %s" % (i, before[i][0][:1200], after[i][0][:1200]), tag="aftermath")
    return runs, exhaustive


def case(c, stats):
    tier = os.environ.get("VERIF_TIER_INTERNAL", "quick")
    schema, base_plan = c01.build_schema(c, {"max_objects": 3, "max_interfaces": 1, "max_unions": 1})
    if c.maybe(25):
        schema["schema_dirs"] = [{"name": "nonIntrospectable", "args": []}]  # introspection requests are then refused (with located errors)
    # what introspection shows: deprecated and hidden fields, and elements whose visibility depends on the caller
    for tn, td in schema["types"].items():
        if td["kind"] == "OBJECT":
            for fn, fd in td["fields"].items():
                if not any(fn in schema["types"][i]["fields"] for i in td.get("interfaces", ())) and c.maybe(20):
                    fd["dirs"] = list(fd.get("dirs") or []) + [{"name": c.choice(["deprecated", "nonIntrospectable"]), "args": []}]
    cfg = c08.gen_config(c, schema, c.maybe(60))
    plan = c08.plan_for(base_plan, cfg)
    plan["gate_hooks"] = False
    plan["introspection_by_rid"] = True
    plan["scramble_args"] = True
    if c.maybe(30):
        # a directive on the schema wraps every execution and refuses every third caller by raising
        add_schema_directive(schema)
        plan["schema_hook_denies"] = True
    h = run_async(c01.make_harness(schema, plan, c08.engine_kwargs(cfg)))
    reqs = gen_requests(c, schema, plan)
    spec = {"schema": schema, "plan": plan, "config": cfg, "requests": reqs}
    scripts = [[c.int(0, 9) for _ in range(c.int(2, 16))] for _ in range(6)]
    runs, exhaustive = check(spec, h, SCHEDULES[tier], scripts, stats)
    stats.hist["exhaustive_cases" if exhaustive else "capped_cases"] = stats.hist.get("exhaustive_cases" if exhaustive else "capped_cases", 0) + 1


def run_worker(seed, tier, index, nworkers):
    os.environ["VERIF_TIER_INTERNAL"] = tier
    stats = core.Stats(max_samples=2)
    scale = float(os.environ.get("TFV_SCALE", "1"))
    n = max(1, int(CASES[tier] * scale / nworkers))
    v = core.run_property(case, seed, n, stats, budget_s=BUDGET[tier], shrink=True)
    out = stats.export()
    out["violations"] = [{"spec": core.jsonable(v.spec), "message": v.message}] if v else []
    return out


def replay(spec):
    h = run_async(c01.make_harness(spec["schema"], spec["plan"], c08.engine_kwargs(spec["config"])))
    if "schedule" in spec:
        check(spec, h, 0, [spec["schedule"]])
    else:
        check(spec, h, 2000, [])


TECHNIQUE = "schedule exploration with a controlled asyncio scheduler over Hypothesis-generated request multisets; differential oracle = each concurrent response and resolver log equals the solo run on the same engine"
LEVEL_TEXT = (
    "Several generated requests (valid, failing, invalid, repeated, same document with other variables/operation) are in flight on one "
    "engine while the harness enumerates the interleavings of all their resolver gates; each response and each per-request resolver log "
    "must equal the solo run made beforehand, and solo runs afterwards must be unchanged."
)
LEVEL_NOTE = "trusts: the controlled scheduler; per-request harness state is found through the context object the engine hands to resolvers"
