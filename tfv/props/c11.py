"""C11 - introspection describes exactly the schema that was supplied."""
import copy
import dataclasses
import json
import os
import shutil
import tempfile
import types

from tfv import core, gqlparse
from tfv.core import Violation, run_async
from tfv.gen import gen_const_value, gen_schema, wrap_type
from tfv.impl import Harness, clean_registry
from tfv.model import BUILTIN_SCALARS, canon, kind_of, possible_types, print_string, print_value, ty, ty_str
from tfv.ref import CODECS

from tartiflette import Directive, Engine, Scalar, create_engine

ID = "C11"
LEVEL = "exploration"
WORKERS = {"quick": 8, "thorough": 16}
CASES = {"quick": 1500, "thorough": 80000}
BUDGET = {"quick": 50, "thorough": 560}
RULE = (
    "case = generated schema model (every type kind, wrappers to depth 3, argument / input-field defaults of every value kind incl. "
    "strings needing escapes, enums, nested lists and objects, interfaces with several implementers, unions, @deprecated with and without "
    "reason on fields and enum values, @nonIntrospectable on fields or on the schema, custom directives with arguments and arbitrary "
    "location sets, custom root names) x printing variant (definition order, descriptions as strings or block strings, comments, commas) x "
    "split into base + `extend` pieces of every kind x supply mode (string, file, list of files, directory with .graphql/.sdl files in "
    "sub-directories) x file encoding (utf-8, utf-16, latin-1) x build style (create_engine, Engine(...) then cook(), Engine() then "
    "cook(...); every SDL is built twice under two schema names) x kind of directive implementation object (class, instance, dataclass "
    "instance, SimpleNamespace). Oracle = round trip: the standard introspection query is normalised and compared with declared + engine built-ins "
    "(kinds, fields, arguments, full ofType chains, default values parsed back and compared by value, enum values, interfaces, possible "
    "types, input fields, roots, directives; nothing missing, nothing extra), deprecation flags/reasons, includeDeprecated true/false/"
    "omitted, hidden fields absent, __type(name) = types entry for every name and null for fresh names, schema-level @nonIntrospectable "
    "refuses introspection. Distinct = SHA-1 of (model, pieces, mode); non-trivial = the SDL uses >= 1 extension and >= 1 abstract type, "
    "or a default of list/object kind."
)
ASSUMPTIONS = ["descriptions are generated but not compared (not in the statement)", "SDL-side block strings are used for descriptions only"]
BUILTIN_TYPES = ["Boolean", "Date", "DateTime", "Float", "ID", "Int", "String", "Time"]
BUILTIN_DIRECTIVES = {
    "skip": {"locations": ["FIELD", "FRAGMENT_SPREAD", "INLINE_FRAGMENT"], "args": {"if": {"type": "Boolean!", "default": None}}},
    "include": {"locations": ["FIELD", "FRAGMENT_SPREAD", "INLINE_FRAGMENT"], "args": {"if": {"type": "Boolean!", "default": None}}},
    "deprecated": {"locations": ["ENUM_VALUE", "FIELD_DEFINITION"], "args": {"reason": {"type": "String", "default": ("str", "No longer supported")}}},
    "nonIntrospectable": {"locations": ["FIELD_DEFINITION", "SCHEMA"], "args": {}},
}
ALL_LOCATIONS = ["QUERY", "MUTATION", "SUBSCRIPTION", "FIELD", "FRAGMENT_DEFINITION", "FRAGMENT_SPREAD", "INLINE_FRAGMENT", "SCHEMA", "SCALAR", "OBJECT",
                 "FIELD_DEFINITION", "ARGUMENT_DEFINITION", "INTERFACE", "UNION", "ENUM", "ENUM_VALUE", "INPUT_OBJECT", "INPUT_FIELD_DEFINITION"]
IQ = """query IntrospectionQuery { __schema { queryType { name } mutationType { name } subscriptionType { name }
 types { ...FullType } directives { name locations args { ...InputValue } } } }
fragment FullType on __Type { kind name
 fields(includeDeprecated: true) { name args { ...InputValue } type { ...TypeRef } isDeprecated deprecationReason }
 fieldsNoDep: fields(includeDeprecated: false) { name } fieldsDefault: fields { name }
 inputFields { ...InputValue } interfaces { ...TypeRef }
 enumValues(includeDeprecated: true) { name isDeprecated deprecationReason }
 enumNoDep: enumValues(includeDeprecated: false) { name } enumDefault: enumValues { name }
 possibleTypes { ...TypeRef } }
fragment InputValue on __InputValue { name type { ...TypeRef } defaultValue }
fragment TypeRef on __Type { kind name ofType { kind name ofType { kind name ofType { kind name ofType { kind name ofType { kind name ofType { kind name ofType { kind name } } } } } } } }
"""
TYPE_Q = """query T($n: String!) { __type(name: $n) { ...FullType } }
fragment FullType on __Type { kind name
 fields(includeDeprecated: true) { name args { ...InputValue } type { ...TypeRef } isDeprecated deprecationReason }
 fieldsNoDep: fields(includeDeprecated: false) { name } fieldsDefault: fields { name }
 inputFields { ...InputValue } interfaces { ...TypeRef }
 enumValues(includeDeprecated: true) { name isDeprecated deprecationReason }
 enumNoDep: enumValues(includeDeprecated: false) { name } enumDefault: enumValues { name }
 possibleTypes { ...TypeRef } }
fragment InputValue on __InputValue { name type { ...TypeRef } defaultValue }
fragment TypeRef on __Type { kind name ofType { kind name ofType { kind name ofType { kind name ofType { kind name ofType { kind name ofType { kind name ofType { kind name } } } } } } } }
"""

# ------------------------------------------------------------------ model decoration


def decorate(c, M):
    T = M["types"]
    iface_fields = {}
    for tn, td in T.items():
        if td["kind"] == "OBJECT":
            for i in td.get("interfaces", ()):
                for fn in T[i]["fields"]:
                    iface_fields.setdefault(tn, set()).add(fn)
    for tn, td in T.items():
        if c.maybe(40):
            td["desc"] = c.text(alphabet="abc \"\\\n#é", lo=1, hi=8)
        if td["kind"] == "OBJECT":
            for fn, fd in td["fields"].items():
                if fn in iface_fields.get(tn, ()):
                    continue
                k = c.weighted([(6, None), (2, "dep"), (1, "dep_reason"), (1, "hidden")])
                if k == "dep":
                    fd.setdefault("dirs", []).append({"name": "deprecated", "args": []})
                elif k == "dep_reason":
                    fd.setdefault("dirs", []).append({"name": "deprecated", "args": [["reason", ["str", c.text(alphabet="abc \"é", lo=0, hi=5)]]]})
                elif k == "hidden":
                    fd.setdefault("dirs", []).append({"name": "nonIntrospectable", "args": []})
                if c.maybe(20):
                    fd["desc"] = c.text(alphabet="ab \"", lo=1, hi=5)
        if td["kind"] == "ENUM":
            td.setdefault("value_dirs", {})
            for v in td["values"]:
                k = c.weighted([(6, None), (2, "dep"), (1, "dep_reason")])
                if k == "dep":
                    td["value_dirs"][v] = list(td["value_dirs"].get(v) or []) + [{"name": "deprecated", "args": []}]
                elif k == "dep_reason":
                    td["value_dirs"][v] = list(td["value_dirs"].get(v) or []) + [{"name": "deprecated", "args": [["reason", ["str", c.text(alphabet="xyz \\", lo=0, hi=5)]]]}]
    # custom directives (declared; some with arguments and defaults)
    for i in range(c.int(0, 2)):
        args = {}
        for an in c.shuffle(["a0", "a1"])[: c.int(0, 2)]:
            names = list(BUILTIN_SCALARS) + [n for n, d in T.items() if d["kind"] in ("ENUM", "INPUT", "SCALAR")]
            t = wrap_type(c, c.choice(names), max_depth=2)
            args[an] = {"type": t}
            if c.maybe(50):
                args[an]["default"] = gen_const_value(c, M, ty(t), block=False)
        locs = c.shuffle(ALL_LOCATIONS)[: c.int(1, 5)]
        M["directives"]["cd%d" % i] = {"args": args, "locations": locs}
        # apply it to some types where it is allowed (introspection does not show applied directives)
        loc_of = {"OBJECT": "OBJECT", "INTERFACE": "INTERFACE", "UNION": "UNION", "ENUM": "ENUM", "INPUT": "INPUT_OBJECT", "SCALAR": "SCALAR"}
        for tn, td in T.items():
            if loc_of[td["kind"]] in locs and c.maybe(40):
                dargs = [[an, gen_const_value(c, M, ty(ad["type"]), nullp=0, block=False)] for an, ad in args.items() if ty(ad["type"])[0] == "NN" or c.maybe(40)]
                td.setdefault("dirs", []).append({"name": "cd%d" % i, "args": dargs})
    if c.maybe(8):
        M["schema_dirs"] = [{"name": "nonIntrospectable", "args": []}]
        M["explicit_schema"] = True
    elif c.maybe(25):
        M["explicit_schema"] = True
    return M


def covariate(c, M):
    """valid covariant implementations: non-null-ification, object for interface/union, inside lists too"""
    T = M["types"]
    tags = set()
    objs = [n for n, d in T.items() if d["kind"] == "OBJECT"]
    for iname, idef in T.items():
        if idef["kind"] != "INTERFACE":
            continue
        impls = [n for n in objs if iname in T[n].get("interfaces", ())]
        if not impls:
            continue
        # an extra relation field on the interface whose implementers narrow it
        if c.maybe(30):
            targets = [n for n, d in T.items() if d["kind"] in ("INTERFACE", "UNION") and possible_types(M, n)]
            if targets:
                tgt = c.choice(targets)
                shape = c.choice(["%s", "[%s]", "[%s!]"])
                fn = "rel"
                if all(fn not in T[o]["fields"] for o in impls) and fn not in idef["fields"]:
                    idef["fields"][fn] = {"type": shape % tgt, "args": {}}
                    for o in impls:
                        narrow = c.choice(possible_types(M, tgt)) if c.maybe(70) else tgt
                        T[o]["fields"][fn] = {"type": shape % narrow, "args": {}}
                        if narrow != tgt:
                            tags.add("covariant_" + ("list_" if "[" in shape else "") + T[tgt]["kind"].lower())
        for fn, fd in idef["fields"].items():
            for o in impls:
                of = T[o]["fields"].get(fn)
                if of and of["type"] == fd["type"] and not fd["type"].endswith("!") and c.maybe(15):
                    of["type"] = fd["type"] + "!"
                    tags.add("covariant_non_null")
    return tags


# ------------------------------------------------------------------ pieces (base + extensions)


def split(c, M):
    """-> list of pieces (kind, name, partial) whose union is M"""
    pieces = []
    T = M["types"]
    for n, d in (M.get("directives") or {}).items():
        pieces.append({"p": "directive", "name": n, "def": d})
    for tn, td in T.items():
        base = copy.deepcopy(td)
        exts = []
        k = td["kind"]
        if k in ("OBJECT", "INTERFACE", "INPUT") and len(td["fields"]) >= 2 and c.maybe(40):
            names = list(td["fields"])
            nmove = c.int(1, len(names) - 1)
            moved = c.shuffle(names)[:nmove]
            ext = {"kind": k, "fields": {}}
            for fn in names:
                if fn in moved:
                    ext["fields"][fn] = base["fields"].pop(fn)
            if len(moved) >= 2 and c.maybe(30):
                first = moved[0]
                e2 = {"kind": k, "fields": {first: ext["fields"].pop(first)}}
                exts.append(e2)
            exts.append(ext)
        if k == "OBJECT" and td.get("interfaces") and c.maybe(40):
            mv = c.shuffle(td["interfaces"])[: c.int(1, len(td["interfaces"]))]
            base["interfaces"] = [i for i in td["interfaces"] if i not in mv]
            exts.append({"kind": k, "fields": {}, "interfaces": mv})
        if k == "ENUM" and len(td["values"]) >= 2 and c.maybe(40):
            mv = td["values"][c.int(1, len(td["values"]) - 1):]
            base["values"] = [v for v in td["values"] if v not in mv]
            exts.append({"kind": k, "values": mv, "value_dirs": td.get("value_dirs")})
        if k == "UNION" and len(td["members"]) >= 2 and c.maybe(40):
            mv = td["members"][c.int(1, len(td["members"]) - 1):]
            base["members"] = [v for v in td["members"] if v not in mv]
            exts.append({"kind": k, "members": mv})
        if base.get("dirs") and c.maybe(50):
            # type-level directives arrive through a directive-only extension
            exts.append({"kind": k, "dirs": base.pop("dirs"), "fields": {}, "values": [], "members": []})
        pieces.append({"p": "type", "name": tn, "def": base})
        for e in exts:
            e.pop("desc", None)
            pieces.append({"p": "ext", "name": tn, "def": e})
    roots = dict(M["roots"])
    need = M.get("explicit_schema") or roots.get("query") != "Query" or roots.get("mutation", "Mutation") != "Mutation" or roots.get("subscription", "Subscription") != "Subscription"
    if need:
        sdef = {"roots": dict(roots), "dirs": M.get("schema_dirs")}
        if sdef["dirs"] and c.maybe(50):
            # the directives arrive through a directive-only `extend schema @...`
            pieces.append({"p": "schema_ext", "def": {"roots": {}, "dirs": sdef["dirs"]}})
            sdef["dirs"] = None
        if roots.get("mutation") and c.maybe(35):
            sdef["roots"].pop("mutation")
            pieces.append({"p": "schema", "def": sdef})
            pieces.append({"p": "schema_ext", "def": {"roots": {"mutation": roots["mutation"]}}})
        else:
            pieces.append({"p": "schema", "def": sdef})
    return pieces


# ------------------------------------------------------------------ printing


class Style:
    def __init__(self, c):
        self.commas = c.maybe(30)
        self.comments = c.maybe(30)
        self.block_desc = c.maybe(40)
        self.compact = c.maybe(30)
        self.lead_amp = c.maybe(12)


def p_desc(st, d, ind=""):
    if d is None:
        return ""
    if st.block_desc and '"""' not in d and not d.endswith('"') and "\\" not in d:
        return '%s"""%s"""\n' % (ind, d)
    return "%s%s\n" % (ind, print_string(d))


def p_dirs(dirs):
    out = ""
    for d in dirs or ():
        out += " @" + d["name"]
        if d.get("args"):
            out += "(" + ", ".join("%s: %s" % (n, print_value(v)) for n, v in d["args"]) + ")"
    return out


def p_args(st, args):
    if not args:
        return ""
    parts = []
    for an, ad in args.items():
        s = "%s: %s" % (an, ad["type"])
        if "default" in ad:
            s += " = " + print_value(ad["default"])
        s += p_dirs(ad.get("dirs"))
        parts.append(s)
    return "(" + (", " if st.commas else " ").join(parts) + ")"


def p_fields(st, fields, input_side=False):
    lines = []
    for fn, fd in fields.items():
        s = p_desc(st, fd.get("desc"), "  ")
        if input_side:
            s += "  %s: %s" % (fn, fd["type"])
            if "default" in fd:
                s += " = " + print_value(fd["default"])
        else:
            s += "  %s%s: %s" % (fn, p_args(st, fd.get("args")), fd["type"])
        s += p_dirs(fd.get("dirs"))
        if st.commas:
            s += ","
        if st.comments:
            s += " # c"
        lines.append(s)
    sep = "\n"
    return " {\n%s\n}" % sep.join(lines)


def p_piece(st, piece):
    p = piece["p"]
    d = piece["def"]
    if p == "directive":
        return "directive @%s%s on %s" % (piece["name"], p_args(st, d.get("args")), " | ".join(d["locations"]))
    if p in ("schema", "schema_ext"):
        lines = ["  %s: %s" % (op, d["roots"][op]) for op in ("query", "mutation", "subscription") if d["roots"].get(op)]
        if not lines:
            return "extend schema%s" % p_dirs(d.get("dirs"))
        return "%sschema%s {\n%s\n}" % ("extend " if p == "schema_ext" else "", p_dirs(d.get("dirs")), "\n".join(lines))
    pre = "extend " if p == "ext" else ""
    name = piece["name"]
    k = d["kind"]
    head = p_desc(st, d.get("desc")) if p == "type" else ""
    dirs = p_dirs(d.get("dirs"))
    if p == "ext" and d.get("dirs") and not d.get("fields") and not d.get("values") and not d.get("members") and not d.get("interfaces"):
        kw = {"SCALAR": "scalar", "ENUM": "enum", "UNION": "union", "INPUT": "input", "OBJECT": "type", "INTERFACE": "interface"}[k]
        return "extend %s %s%s" % (kw, name, dirs)
    if k == "SCALAR":
        return head + "%sscalar %s%s" % (pre, name, dirs)
    if k == "ENUM":
        vals = []
        for v in d["values"]:
            vals.append("  " + v + p_dirs((d.get("value_dirs") or {}).get(v)))
        return head + "%senum %s%s {\n%s\n}" % (pre, name, dirs, "\n".join(vals))
    if k == "UNION":
        lead = "| " if st.compact and len(d["members"]) > 1 else ""
        return head + "%sunion %s%s = %s%s" % (pre, name, dirs, lead, " | ".join(d["members"]))
    if k == "INPUT":
        return head + "%sinput %s%s%s" % (pre, name, dirs, p_fields(st, d["fields"], True))
    kw = "type" if k == "OBJECT" else "interface"
    impl = ""
    if k == "OBJECT" and d.get("interfaces"):
        impl = " implements " + ("& " if st.lead_amp else "") + " & ".join(d["interfaces"])
    body = p_fields(st, d["fields"]) if d.get("fields") else ""
    return head + "%s%s %s%s%s%s" % (pre, kw, name, impl, dirs, body)


def supply(c, chunks, mode):
    """-> (sdl argument, tmpdir or None)"""
    if mode == "string":
        return "\n\n".join(chunks) + "\n", None
    d = tempfile.mkdtemp(prefix="tfv-c11-")
    if mode == "file":
        p = os.path.join(d, "schema.graphql")
        with open(p, "w", encoding="utf-8") as f:
            f.write("\n\n".join(chunks) + "\n")
        return p, d
    nfiles = min(len(chunks), c.int(2, 4))
    groups = [[] for _ in range(nfiles)]
    for i, ch in enumerate(chunks):
        groups[c.int(0, nfiles - 1) if i >= nfiles else i].append(ch)
    paths = []
    for i, g in enumerate(groups):
        if mode == "dir":
            sub = os.path.join(d, c.choice(["", "a", "a/b"]))
            os.makedirs(sub, exist_ok=True)
            p = os.path.join(sub, "f%d.%s" % (i, c.choice(["graphql", "sdl"])))
        else:
            p = os.path.join(d, "f%d.graphql" % i)
        with open(p, "w", encoding="utf-8") as f:
            f.write("\n\n".join(g) + "\n")
        paths.append(p)
    if mode == "dir":
        with open(os.path.join(d, "ignored.txt"), "w") as f:
            f.write("type Ignored { a: Int }")
        return d, d
    return paths, d


# ------------------------------------------------------------------ expected / normalised introspection


def canon_lit(v):
    k = v[0]
    if k == "null":
        return ("null",)
    if k == "int":
        return ("int", int(v[1]))
    if k == "float":
        return ("float", float(v[1]))
    if k in ("str", "block"):
        return ("str", v[1])
    if k == "bool":
        return ("bool", bool(v[1]))
    if k == "enum":
        return ("enum", v[1])
    if k == "list":
        return ("list", tuple(canon_lit(x) for x in v[1]))
    if k == "obj":
        return ("obj", tuple(sorted((n, canon_lit(x)) for n, x in v[1])))
    raise ValueError(v)


def canon_ast(a):
    k = a["kind"]
    if k == "NullValue":
        return ("null",)
    if k == "IntValue":
        return ("int", int(a["value"]))
    if k == "FloatValue":
        return ("float", float(a["value"]))
    if k == "StringValue":
        return ("str", a["value"])
    if k == "BooleanValue":
        return ("bool", a["value"])
    if k == "EnumValue":
        return ("enum", a["value"])
    if k == "ListValue":
        return ("list", tuple(canon_ast(x) for x in a["values"] or ()))
    if k == "ObjectValue":
        return ("obj", tuple(sorted((f["name"]["value"], canon_ast(f["value"])) for f in a["fields"] or ())))
    raise ValueError(a)


def parse_default(s):
    if s is None:
        return None
    try:
        p = gqlparse.Parser(s)
        v = p.value(const=True)
        if not p.at("eof"):
            raise gqlparse.GQLSyntaxError("trailing text")
        return canon_ast(v)
    except (gqlparse.GQLSyntaxError, ValueError, KeyError) as e:
        return ("UNPARSABLE", s, str(e))


def typeref(t):
    if t is None:
        return None
    if t["kind"] == "NON_NULL":
        return typeref(t["ofType"]) + "!"
    if t["kind"] == "LIST":
        return "[" + typeref(t["ofType"]) + "]"
    return t["name"]


def dep_of(dirs):
    for d in dirs or ():
        if d["name"] == "deprecated":
            for n, v in d.get("args") or ():
                if n == "reason":
                    return True, (v[1] if v[0] != "null" else None)
            return True, "No longer supported"
    return False, None


def hidden(dirs):
    return any(d["name"] == "nonIntrospectable" for d in dirs or ())


def exp_args(args):
    return {an: {"type": ad["type"], "default": canon_lit(ad["default"]) if "default" in ad else None} for an, ad in (args or {}).items()}


def expected(M):
    T = M["types"]
    out = {"query": M["roots"].get("query"), "mutation": M["roots"].get("mutation"), "subscription": M["roots"].get("subscription"), "types": {}, "directives": {}}
    for n in BUILTIN_TYPES:
        out["types"][n] = {"kind": "SCALAR"}
    for tn, td in T.items():
        k = td["kind"]
        e = {"kind": {"INPUT": "INPUT_OBJECT"}.get(k, k)}
        if k in ("OBJECT", "INTERFACE"):
            e["fields"] = {}
            for fn, fd in td["fields"].items():
                if hidden(fd.get("dirs")):
                    continue
                dep, reason = dep_of(fd.get("dirs"))
                e["fields"][fn] = {"type": fd["type"], "args": exp_args(fd.get("args")), "deprecated": dep, "reason": reason}
        if k == "OBJECT":
            e["interfaces"] = sorted(td.get("interfaces") or ())
        if k in ("INTERFACE", "UNION"):
            e["possibleTypes"] = sorted(possible_types(M, tn))
        if k == "ENUM":
            e["enumValues"] = {}
            for v in td["values"]:
                dep, reason = dep_of((td.get("value_dirs") or {}).get(v))
                e["enumValues"][v] = {"deprecated": dep, "reason": reason}
        if k == "INPUT":
            e["inputFields"] = {fn: {"type": fd["type"], "default": canon_lit(fd["default"]) if "default" in fd else None} for fn, fd in td["fields"].items()}
        out["types"][tn] = e
    for n, d in BUILTIN_DIRECTIVES.items():
        out["directives"][n] = {"locations": sorted(d["locations"]), "args": {a: {"type": x["type"], "default": x["default"]} for a, x in d["args"].items()}}
    for n, d in (M.get("directives") or {}).items():
        out["directives"][n] = {"locations": sorted(d["locations"]), "args": exp_args(d.get("args"))}
    return out


def norm_args(args):
    return {a["name"]: {"type": typeref(a["type"]), "default": parse_default(a["defaultValue"])} for a in args or ()}


def norm_type(t):
    e = {"kind": t["kind"]}
    problems = []
    if t.get("fields") is not None:
        e["fields"] = {}
        for f in t["fields"]:
            if f["name"] in e["fields"]:
                problems.append("field %s listed twice" % f["name"])
            e["fields"][f["name"]] = {"type": typeref(f["type"]), "args": norm_args(f["args"]), "deprecated": f["isDeprecated"], "reason": f["deprecationReason"]}
        nodep = sorted(f["name"] for f in t["fieldsNoDep"] or ())
        dflt = sorted(f["name"] for f in t["fieldsDefault"] or ())
        want = sorted(n for n, f in e["fields"].items() if not f["deprecated"])
        if nodep != want:
            problems.append("fields(includeDeprecated: false) = %r, expected %r" % (nodep, want))
        if dflt != want:
            problems.append("fields (includeDeprecated omitted) = %r, expected %r" % (dflt, want))
    if t.get("interfaces") is not None:
        e["interfaces"] = sorted(typeref(i) for i in t["interfaces"])
    if t.get("possibleTypes") is not None:
        e["possibleTypes"] = sorted(typeref(i) for i in t["possibleTypes"])
    if t.get("enumValues") is not None:
        e["enumValues"] = {v["name"]: {"deprecated": v["isDeprecated"], "reason": v["deprecationReason"]} for v in t["enumValues"]}
        nodep = sorted(f["name"] for f in t["enumNoDep"] or ())
        dflt = sorted(f["name"] for f in t["enumDefault"] or ())
        want = sorted(n for n, f in e["enumValues"].items() if not f["deprecated"])
        if nodep != want or dflt != want:
            problems.append("enumValues without deprecated = %r / %r, expected %r" % (nodep, dflt, want))
    if t.get("inputFields") is not None:
        e["inputFields"] = norm_args(t["inputFields"])
    return e, problems


def normalise(s):
    out = {"query": (s["queryType"] or {}).get("name"), "mutation": (s["mutationType"] or {}).get("name"), "subscription": (s["subscriptionType"] or {}).get("name"), "types": {}, "directives": {}}
    problems = []
    for t in s["types"]:
        if t["name"].startswith("__"):
            continue  # meta-types are optional
        if t["name"] in out["types"]:
            problems.append("type %s listed twice" % t["name"])
        out["types"][t["name"]], pr = norm_type(t)
        problems += ["%s: %s" % (t["name"], p) for p in pr]
    for d in s["directives"]:
        if d["name"] in out["directives"]:
            problems.append("directive %s listed twice" % d["name"])
        out["directives"][d["name"]] = {"locations": sorted(d["locations"]), "args": norm_args(d["args"])}
    return out, problems


def first_diff(a, b, path=""):
    if isinstance(a, dict) and isinstance(b, dict):
        for k in sorted(set(a) | set(b), key=str):
            if k not in a:
                return "%s/%s: reported by introspection but not declared: %r" % (path, k, b[k])
            if k not in b:
                return "%s/%s: declared (%r) but missing from introspection" % (path, k, a[k])
            d = first_diff(a[k], b[k], "%s/%s" % (path, k))
            if d:
                return d
        return None
    if isinstance(a, (list, tuple)) and isinstance(b, (list, tuple)) and len(a) == len(b):
        for i, (x, y) in enumerate(zip(a, b)):
            d = first_diff(x, y, "%s[%d]" % (path, i))
            if d:
                return d
        return None
    if a != b or type(a) is not type(b):
        if isinstance(a, float) and isinstance(b, (int, float)) and a == b:
            return None
        return "%s: declared %r, introspection says %r" % (path, a, b)
    return None


# ------------------------------------------------------------------ the check


def known_signature(diff):
    for f in core.findings_for(ID):
        if f["status"] == "open" and f["signature"].get("diff_contains") and all(x in diff for x in f["signature"]["diff_contains"]):
            return f["id"]
    return None


def build_and_check(spec):
    """raises Violation; returns class labels.  Every SDL is built twice in the same process (two schema
    names): a second engine from the same text must behave like the first."""
    clean_registry()
    labels = build_once(spec, "c11")
    build_once(spec, "c11again", second=True)
    return labels


def build_once(spec, name, second=False):
    M = spec["model"]
    for n, d in M["types"].items():
        if d["kind"] == "SCALAR":
            from tfv.impl import make_scalar
            Scalar(n, schema_name=name)(make_scalar(CODECS[d.get("codec", "tagged")]))
    for n in M.get("directives") or {}:
        Directive(n, schema_name=name)(directive_implementation(spec.get("dimpl", "class"), n))
    sdl_arg = spec["sdl"]
    tmp = None
    enc = file_encoding(spec)
    how = (spec.get("how") or ["create", "create"])[1 if second else 0]
    try:
        if spec["mode"] != "string":
            sdl_arg, tmp = materialise_files(spec)
        try:
            if how == "create":
                engine = run_async(create_engine(sdl_arg, schema_name=name, sdl_file_encoding=enc))
            elif how == "ctor_then_cook":  # configuration on the constructor, cooked later without repeating it
                engine = Engine(sdl_arg, schema_name=name, sdl_file_encoding=enc)
                run_async(engine.cook())
            else:  # everything handed to cook()
                engine = Engine()
                run_async(engine.cook(sdl_arg, schema_name=name, sdl_file_encoding=enc))
        except Exception as e:  # noqa
            raise Violation(spec, "valid SDL refused%s: %r\nmode=%s encoding=%s how=%s directive implementations=%s\nSDL:\n%s" % (
                " when built a second time in the same process" if second else "", e, spec["mode"], enc, how, spec.get("dimpl", "class"), spec["text"]), tag="refused")
    finally:
        if tmp:
            shutil.rmtree(tmp, ignore_errors=True)
    ctx = "\nmode=%s\nSDL:\n%s" % (spec["mode"], spec["text"])
    resp = run_async(engine.execute(IQ))
    if M.get("schema_dirs"):
        r2 = run_async(engine.execute('{ __type(name: "Int") { name } }'))
        if resp.get("data") is not None or not resp.get("errors") or (r2.get("data") or {}).get("__type") is not None:
            raise Violation(spec, "schema is @nonIntrospectable but introspection answered: %s / %s%s" % (str(resp)[:300], str(r2)[:300], ctx), tag="schema_hidden")
        return ["schema_nonintrospectable"]
    if "errors" in resp or not resp.get("data"):
        raise Violation(spec, "introspection query failed: %s%s" % (str(resp)[:800], ctx), tag="introspection_failed")
    got, problems = normalise(resp["data"]["__schema"])
    if problems:
        raise Violation(spec, "introspection inconsistency: %s%s" % (problems[0], ctx), tag="inconsistent:" + problems[0])
    want = expected(M)
    d = first_diff(want, got)
    if d:
        raise Violation(spec, "introspection differs from the declared schema: %s%s" % (d, ctx), tag="diff:" + d)
    # __type(name) agrees with the types entry
    by_name = {t["name"]: t for t in resp["data"]["__schema"]["types"]}
    for tn in list(by_name)[:]:
        r = run_async(engine.execute(TYPE_Q, variables={"n": tn}))
        if "errors" in r or r["data"]["__type"] != by_name[tn]:
            raise Violation(spec, "__type(name: %r) differs from the __schema.types entry:\n %s\n %s%s" % (tn, str(r)[:600], str(by_name[tn])[:600], ctx), tag="type_lookup")
    for fresh in ("ZzNoSuchType", "query", ""):
        if fresh in by_name:
            continue
        r = run_async(engine.execute(TYPE_Q, variables={"n": fresh}))
        if "errors" in r or r["data"]["__type"] is not None:
            raise Violation(spec, "__type(name: %r) should be null: %s%s" % (fresh, str(r)[:400], ctx), tag="type_unknown")
    return []


def file_encoding(spec):
    """the encoding the SDL files are stored in and declared with; latin-1 only if the text fits"""
    enc = spec.get("encoding") or "utf-8"
    if enc == "latin-1":
        try:
            spec["text"].encode("latin-1")
        except UnicodeEncodeError:
            return "utf-16"
    return enc


@dataclasses.dataclass
class ConfiguredDirective:
    """a directive implementation carrying configuration: dataclass instances compare by value and are unhashable"""

    name: str
    options: dict = dataclasses.field(default_factory=dict)


def directive_implementation(kind, n):
    if kind == "class":
        return type("D_" + n, (), {})
    if kind == "instance":
        return type("D_" + n, (), {})()
    if kind == "dataclass":
        return ConfiguredDirective(n)
    return types.SimpleNamespace(name=n)


def materialise_files(spec):
    d = tempfile.mkdtemp(prefix="tfv-c11-")
    mode = spec["mode"]
    paths = []
    for rel, content in spec["files"]:
        p = os.path.join(d, rel)
        os.makedirs(os.path.dirname(p), exist_ok=True)
        with open(p, "w", encoding=file_encoding(spec)) as f:
            f.write(content)
        paths.append(p)
    if mode == "file":
        return paths[0], d
    if mode == "list":
        return paths, d
    with open(os.path.join(d, "ignored.txt"), "w") as f:
        f.write("type Ignored { a: Int }")
    return d, d


def make_pieces(c):
    M = gen_schema(c, {"max_objects": 4, "max_interfaces": 2, "max_unions": 2, "max_enums": 2, "max_inputs": 2, "max_scalars": 2, "schema_directive": False, "query_directive": False})
    cov = covariate(c, M)
    M = decorate(c, M)
    pieces = split(c, M)
    return M, pieces, cov


def render(c, M, pieces, st, cov=(), mode=None, shuffle=True):
    order = c.shuffle(pieces) if (shuffle and c.maybe(60)) else list(pieces)
    chunks = []
    for p in order:
        ch = p_piece(st, p)
        if st.comments and c.maybe(30):
            ch = "# comment\n" + ch
        chunks.append(ch)
    mode = mode or c.weighted([(4, "string"), (2, "file"), (2, "list"), (2, "dir")])
    text = "\n\n".join(chunks) + "\n"
    spec = {"model": M, "mode": mode, "text": text, "sdl": text, "pieces": [(p["p"], p.get("name")) for p in order], "tags": sorted(cov) + (["leading_ampersand"] if st.lead_amp and "implements &" in text else [])}
    if mode != "string":
        if mode == "file":
            spec["files"] = [["schema.graphql", text]]
        else:
            n = min(len(chunks), c.int(2, 4))
            groups = [[] for _ in range(n)]
            for i, ch in enumerate(chunks):
                groups[i if i < n else c.int(0, n - 1)].append(ch)
            files = []
            for i, g in enumerate(groups):
                rel = "f%d.graphql" % i
                if mode == "dir":
                    rel = os.path.join(c.choice(["", "a", "a/b"]), "f%d.%s" % (i, c.choice(["graphql", "sdl"])))
                content = "\n\n".join(g) + "\n"
                # files need not end with a newline, and may end with a comment or a bare name token
                ending = c.weighted([(5, "newline"), (3, "none"), (2, "comment")])
                if ending == "none":
                    content = content.rstrip("\n")
                elif ending == "comment":
                    content = content + "# end of file"
                files.append([rel, content])
            spec["files"] = files
            spec["tags"] = list(spec["tags"]) + sorted({"file_without_trailing_newline"} if any(not f[1].endswith("\n") for f in files) else set())
    return spec


def make_case(c):
    M, pieces, cov = make_pieces(c)
    spec = render(c, M, pieces, Style(c), cov)
    spec["encoding"] = c.weighted([(6, "utf-8"), (2, "utf-16"), (2, "latin-1")])
    hows = ["create", "ctor_then_cook", "cook_args"]
    spec["how"] = [c.weighted([(5, "create"), (3, "ctor_then_cook"), (2, "cook_args")]), c.choice(hows)]
    spec["dimpl"] = c.weighted([(5, "class"), (2, "instance"), (2, "dataclass"), (1, "namespace")])
    spec["tags"] = list(spec["tags"]) + ["how:" + spec["how"][0], "dimpl:" + spec["dimpl"]] + (["encoding:" + file_encoding(spec)] if spec["mode"] != "string" else [])
    return spec


def features(spec):
    M = spec["model"]
    f = set()
    if any(p[0] in ("ext", "schema_ext") for p in spec["pieces"]):
        f.add("extension")
    if any(d["kind"] in ("INTERFACE", "UNION") for d in M["types"].values()):
        f.add("abstract")

    def has_struct(args):
        return any("default" in a and a["default"][0] in ("list", "obj") for a in (args or {}).values())

    for d in M["types"].values():
        for fd in (d.get("fields") or {}).values():
            if has_struct(fd.get("args")) or ("default" in fd and fd["default"][0] in ("list", "obj")):
                f.add("structured_default")
    for d in (M.get("directives") or {}).values():
        if has_struct(d.get("args")):
            f.add("structured_default")
    return f


def case(c, stats):
    spec = make_case(c)
    labels = []
    try:
        labels = build_and_check(spec)
    except Violation as v:
        fid = known_signature(v.message)
        if fid is None:
            raise
        stats.known(fid)
        labels = ["known:" + fid]
    f = features(spec) | set(spec.get("tags") or ())
    nontrivial = ("extension" in f and "abstract" in f) or "structured_default" in f
    stats.case({"m": spec["model"], "p": spec["pieces"], "mode": spec["mode"], "t": spec["text"]}, nontrivial, sorted(f) + ["mode:" + spec["mode"]] + labels + sorted({"piece:" + p[0] for p in spec["pieces"]}),
               {"mode": spec["mode"], "sdl": spec["text"]})


def run_worker(seed, tier, index, nworkers):
    stats = core.Stats(max_samples=2)
    scale = float(os.environ.get("TFV_SCALE", "1"))
    n = max(1, int(CASES[tier] * scale / nworkers))
    v = core.run_property(case, seed, n, stats, budget_s=BUDGET[tier], shrink=True)
    out = stats.export()
    out["violations"] = [{"spec": core.jsonable(v.spec), "message": v.message}] if v else []
    return out


def replay(spec):
    build_and_check(spec)


TECHNIQUE = "property-based testing (Hypothesis): round trip schema model -> SDL (printing variants, extensions, four supply modes) -> engine -> introspection -> normalised model, compared both ways"
LEVEL_TEXT = (
    "Generated schema models are printed in varying styles, split into definitions and extensions, supplied as string / file / list / "
    "directory, and the standard introspection result is normalised and compared with the model plus the engine's built-ins: nothing "
    "missing, nothing extra, default values compared by value, deprecation and hiding honoured, __type consistent with __schema.types."
)
LEVEL_NOTE = "trusts: the model -> SDL printer (tfv/props/c11.py), the list of engine built-ins (8 scalars, 4 directives), the stand-in value parser used to read defaultValue strings"
