"""C01 - `data` equals the June-2018 execution algorithm's result; resolvers are
called exactly once per (response key, parent) with the right inputs."""
import copy
import json
import os

from tfv import core
from tfv.core import Violation, run_async
from tfv.data import RefProvider, Tree
from tfv.gen import DocGen, gen_schema, gen_split
from tfv.impl import Harness, clean_registry
from tfv.model import canon, kind_of, named, possible_types, print_document, ty
from tfv.ref import Executor, RefRequestError

ID = "C01"
LEVEL = "exploration"
WORKERS = {"quick": 8, "thorough": 16}
CASES = {"quick": 10000, "thorough": 250000}
BUDGET = {"quick": 50, "thorough": 540}
RULE = (
    "case = generated schema x valid document x operation x variables x lazily drawn resolver data x "
    "implementation plan; oracle = independent reference executor on the model (ordered data, resolver-call "
    "multiset, type-resolver precedence); parent values come as dicts, attribute objects, class-named objects, read-only mappings and "
    "row objects with only __getitem__; a quarter of the schemas are spelled with split (definition + extend) types; 12% of the "
    "requests are followed by a variant with one failing position judged by C02's oracle under this plan. Distinct = SHA-1 of the canonical case spec; non-trivial = the "
    "executed operation exercised at least one of: a type condition differing from the runtime type, a "
    "response key collected from >=2 field nodes, @skip/@include driven by a variable, an abstract-typed value."
    " 15% of the plans pass an empty (falsy) mapping as the caller's context; half of them modify delivered argument dictionaries in place after each request."
)
ASSUMPTIONS = [
    "query documents are parsed by the stand-in libgraphqlparser (tfv/gqlparse.py) - DESIGN 1.1",
    "schemas <= 10 types, documents <= ~40 field nodes, lists <= 3 items",
]


def gen_plan(c, schema):
    plan = {"default_fields": [], "tr_field": [], "tr_type": []}
    abstract = [n for n, d in schema["types"].items() if d["kind"] in ("INTERFACE", "UNION")]
    for tn, td in schema["types"].items():
        if td["kind"] != "OBJECT":
            continue
        for fn, fd in td["fields"].items():
            coord = "%s.%s" % (tn, fn)
            if c.maybe(30):
                plan["default_fields"].append(coord)
            elif named(ty(fd["type"])) in abstract and c.maybe(35):
                plan["tr_field"].append(coord)
    for an in abstract:
        if c.maybe(35):
            plan["tr_type"].append(an)
    plan["tr_engine"] = c.maybe(25)
    plan["tr_object"] = c.maybe(30)
    plan["custom_default_resolver"] = c.maybe(25)
    # concurrency options must not change anything observable (C08 explores schedules; here only the options vary)
    kw = {}
    if c.maybe(30):
        kw["coerce_parent_concurrently"] = c.maybe(50)
    if c.maybe(30):
        kw["coerce_list_concurrently"] = c.maybe(50)
    plan["engine_kwargs"] = kw
    plan["inherit_parent_concurrency"] = c.maybe(50)
    plan["falsy_context"] = c.maybe(15)
    plan["scramble_args"] = c.maybe(50)  # delivered argument dictionaries are modified in place after each request
    if c.maybe(25):
        plan["sdl_split"] = gen_split(c, schema)  # some type definitions arrive as definition + `extend` block
    plan["concurrency"] = {}
    if c.maybe(40):
        for tn, td in schema["types"].items():
            if td["kind"] == "OBJECT":
                for fn in td["fields"]:
                    if c.maybe(25):
                        plan["concurrency"]["%s.%s" % (tn, fn)] = {"list": c.choice([None, True, False]), "parent": c.choice([None, True, False])}
    return plan


def pick_operation(c, doc, only_type=None):
    ops = [d for d in doc["defs"] if d["k"] == "op"]
    if only_type:
        op = c.choice([d for d in ops if d["type"] == only_type])
    else:
        op = c.choice(ops)
    if len(ops) == 1 and (op.get("name") is None or c.maybe(50)):
        return op, None
    return op, op["name"]


def build_schema(c, schema_opts=None):
    schema = gen_schema(c, schema_opts)
    plan = gen_plan(c, schema)
    return schema, plan


def build_request(c, schema, plan, doc_opts=None, only_type=None):
    dg = DocGen(c, schema, doc_opts)
    doc = dg.document()
    op, opname = pick_operation(c, doc, only_type)
    variables = dg.variable_values(op)
    spec = {"schema": schema, "plan": plan, "doc": doc, "op": opname, "variables": variables, "tree": None}
    return spec, dg.stats


def reference(spec, chooser=None):
    schema = spec["schema"]
    tree = Tree(schema, chooser, spec.get("tree"))
    plan = spec["plan"]
    no_echo = () if plan.get("custom_default_resolver") else (plan.get("default_fields") or ())
    ex = Executor(schema, spec["doc"], RefProvider(tree, no_echo=no_echo))
    op = ex.get_operation(spec["op"])
    root = schema["roots"][op["type"]]
    data = ex.execute(spec["op"], spec["variables"], root_value=tree.root(root))
    spec["tree"] = tree.store
    return tree, ex, data, root


async def make_harness(schema, plan, engine_kwargs=None, gate=None):
    clean_registry()
    h = Harness(schema, plan, None, gate=gate)
    await h.build(**(engine_kwargs if engine_kwargs is not None else (plan.get("engine_kwargs") or {})))
    return h


async def run_request(h, spec, tree, root):
    h.set_tree(tree)
    printed = print_document(spec["doc"], spec.get("style", 0))
    resp = await h.engine.execute(
        printed.text,
        operation_name=spec["op"],
        context=h.ctx_token,
        variables=copy.deepcopy(spec["variables"]),
        initial_value=h.root_value(root),
    )
    return printed, resp


def ordered(x):
    return json.dumps(core.jsonable(x), sort_keys=False)


def check(spec, chooser=None, h=None):
    """-> flags, or raises Violation"""
    tree, ex, expected, root = reference(spec, chooser)
    if h is None:
        h = run_async(make_harness(spec["schema"], spec["plan"]))
    printed, resp = run_async(run_request(h, spec, tree, root))
    h.scramble_live()
    ctx = "\nquery:\n%s\nvariables: %r op: %r" % (printed.text, spec["variables"], spec["op"])
    if "errors" in resp:
        raise Violation(spec, "unexpected errors for a valid request: %r%s" % (resp["errors"][:3], ctx), tag="errors")
    if ordered(resp.get("data")) != ordered(expected):
        raise Violation(spec, "data differs from the reference\n engine:    %s\n reference: %s%s" % (ordered(resp.get("data")), ordered(expected), ctx), tag="data")
    # resolver calls
    default_fields = set(spec["plan"].get("default_fields") or ())
    logged_defaults = bool(spec["plan"].get("custom_default_resolver"))
    exp_calls = sorted(
        canon([list(p), co, nid, args])
        for p, co, nid, args in ex.calls
        if (co not in default_fields or logged_defaults) and not co.split(".")[1].startswith("__")
    )
    got_calls = sorted(canon([list(p), co, nid, args]) for p, co, nid, args, _ in h.calls)
    if exp_calls != got_calls:
        missing = [x for x in exp_calls if x not in got_calls]
        extra = [x for x in got_calls if x not in exp_calls]
        raise Violation(spec, "resolver calls differ: missing=%s extra=%s%s" % (missing[:4], extra[:4], ctx), tag="calls")
    if not all(okctx for *_, okctx in h.calls):
        raise Violation(spec, "a resolver did not receive the caller's context object" + ctx, tag="ctx")
    if h.unexpected:
        raise Violation(spec, "resolver asked for data the reference never requested: %r%s" % (h.unexpected[:3], ctx), tag="calls")
    # type resolvers: only the most specific present level answered, once per abstract value
    exp_t = []
    for p, abstract, coord in ex.type_calls:
        lv = None
        if coord in spec["plan"]["tr_field"] and coord not in default_fields:
            lv = "field"
        elif abstract in spec["plan"]["tr_type"]:
            lv = "type"
        elif spec["plan"].get("tr_engine"):
            lv = "engine"
        if lv:
            # the engine hands the *field's* info to type resolvers: no list indices
            exp_t.append(canon([[k for k in p if not isinstance(k, int)], abstract, coord, lv]))
    got_t = sorted(canon([[k for k in p if not isinstance(k, int)], a, co, lv]) for p, a, co, lv in h.type_calls)
    if sorted(exp_t) != got_t:
        raise Violation(spec, "type-resolver calls differ: expected=%s got=%s%s" % (sorted(exp_t)[:5], got_t[:5], ctx), tag="type_calls")
    return ex.flags


REQUESTS_PER_ENGINE = 6


def case(c, stats):
    schema, plan = build_schema(c)
    h = run_async(make_harness(schema, plan))
    for _ in range(REQUESTS_PER_ENGINE):
        spec, gstats = build_request(c, schema, plan)
        flags = check(spec, c, h)
        nontrivial = bool(flags & {"type_condition_other", "merged_key", "skipinclude_var", "abstract_value"})
        classes = sorted(flags) + [k for k in ("n_frags", "spread", "inline", "var_nested", "single_into_list", "var_nn_via_default", "repeat_key") if gstats.get(k)]
        sample = {"query": print_document(spec["doc"]).text, "variables": spec["variables"], "op": spec["op"], "sdl_types": list(spec["schema"]["types"]), "flags": sorted(flags)}
        stats.case(spec, nontrivial, classes, sample)
        if c.maybe(12):
            faulted_variant(c, schema, plan, spec, h, stats)


def faulted_variant(c, schema, plan, spec, h, stats):
    """the same request with one failing position (C02's fault sites and oracle) under *this* implementation plan:
    `data` is what the specification prescribes also when a position cannot be completed"""
    from tfv.props import c02

    _, ex, _, _ = reference(spec, None)
    served = set(plan.get("default_fields") or ()) if not plan.get("custom_default_resolver") else set()
    sites = []
    for lab, key, f, is_item in c02.fault_sites(schema, ex):
        if lab.startswith("type:") or lab == "var_null":
            continue
        p = tuple(key)
        while p and p not in ex.results:
            p = p[:-1]
        if p and ex.results[p][2] not in served:
            sites.append((lab, key, f))
    if not sites:
        return
    lab, key, f = c02.pick_fault(c, [(s[0], s[1], s[2], False) for s in sites])[:3]
    fspec = dict(spec, faults=[[c02.key_to_json(key), c02.fault_to_json(f)]])
    c02.check_faulted(fspec, h)
    stats.case(fspec, True, ["faulted_variant", "fault:" + lab], None)


def run_worker(seed, tier, index, nworkers):
    stats = core.Stats()
    scale = float(os.environ.get("TFV_SCALE", "1"))
    n = max(1, int(CASES[tier] * scale / nworkers / REQUESTS_PER_ENGINE))
    v = core.run_property(case, seed, n, stats, budget_s=BUDGET[tier], shrink=True)
    out = stats.export()
    out["violations"] = [{"spec": core.jsonable(v.spec), "message": v.message}] if v else []
    return out


def replay(spec):
    if spec.get("faults"):
        from tfv.props import c02

        return c02.replay(spec)
    check(spec, None)

TECHNIQUE = "property-based testing (Hypothesis): generated schema/document/data vs. independent reference executor (differential oracle)"
LEVEL_TEXT = (
    "Generated-input search: thousands of random schemas, valid documents, variable assignments, resolver data trees and "
    "implementation plans per run; every response is compared with an independent reference implementation of the "
    "June-2018 execution algorithm (ordered data, resolver-call multiset with arguments/parent/context, type-resolver precedence). "
    "Exploration, not proof: bounded sizes, stated in the evidence."
)
LEVEL_NOTE = "trusts: the reference executor (tfv/ref.py), the validity-by-construction of the document generator, the stand-in query parser (tfv/gqlparse.py)"
