"""C14 - subscriptions answer every source event once, in order."""
import asyncio
import copy
import os

from tfv import core
from tfv.core import Violation, run_async
from tfv.data import RefProvider, Tree
from tfv.gen import add_schema_directive
from tfv.impl import Harness, RequestState, clean_registry, nid_of  # noqa: F401 (clean_registry re-exported)
from tfv.model import canon, print_document
from tfv.mutate import mutants
from tfv.props import c01, c02
from tfv.ref import Executor, Fault, RefInputError, RefRequestError, coerce_argument_values, coerce_variable_values
from tfv.sched import Deadlock, Sched

from tartiflette import Subscription

ID = "C14"
LEVEL = "exploration"
WORKERS = {"quick": 8, "thorough": 16}
CASES = {"quick": 14000, "thorough": 300000}  # subscription requests
BUDGET = {"quick": 50, "thorough": 560}
REQUESTS_PER_ENGINE = 6
RULE = (
    "history = generated subscription document (one root field, optional alias / inline fragments at the root, nested fragments, "
    "arguments by literal and variable) x finite event list (0-4 payloads; well-formed, with a nested failing field, with null parts) x "
    "consumption pattern (plain async-for; consumer and source interleaved by the controlled scheduler with drawn scripts; two "
    "subscriptions consumed alternately) plus invalid requests (validation error by mutation, variable coercion error). Oracle = the "
    "yielded sequence equals [reference execution of the selection against event_i as root value] in length and order with C02 semantics "
    "inside each response; the source stream was started exactly once with the reference's coerced arguments and the caller's context; "
    "the iteration ends with the source; invalid requests yield exactly one errors-only response and never start the source. "
    "Distinct = SHA-1 of (document, variables, events, pattern); non-trivial = >= 3 events with a failing one in the middle, or an "
    "interleaved / alternating consumption pattern."
    " In 30% of the cases a pass-through directive on the schema (on_schema_subscription, forwarding by keyword) wraps the subscription."
    " 40% of the valid subscriptions are sent again as the very same text with their Boolean variables flipped (other @skip/@include decisions)."
)
ASSUMPTIONS = c01.ASSUMPTIONS
DOC_OPTS = {"max_nodes": 8, "max_frags": 2, "max_sels": 3, "max_depth": 3, "max_ops": 1, "op_types": ["subscription"]}


class SubHarness(Harness):
    """adds @Subscription sources for every field of the subscription root"""

    def registration_steps(self):
        steps = super().registration_steps()
        root = self.schema["roots"]["subscription"]
        H = self

        def mk(fn):
            async def source(parent, args, ctx, info):
                rs = H.state_of(ctx)
                rs.source_calls.append((fn, copy.deepcopy(args), ctx is rs.ctx))
                for i, nid in enumerate(rs.events):
                    if H.gate is not None:
                        await H.gate(("source", rs.rid, i))
                    rs.yielded += 1
                    if nid == "EMPTY":
                        yield {}
                    elif nid == "NONE":
                        yield None
                    else:
                        yield rs.mat.obj(rs.tree.node(nid))
                if H.gate is not None:
                    await H.gate(("source-end", rs.rid))
            return source

        for fn in self.schema["types"][root]["fields"]:
            steps.append(lambda fn=fn: Subscription("%s.%s" % (root, fn), schema_name=self.name)(mk(fn)))
        return steps


def new_state(schema, req, rid=0):
    tree = Tree(schema, None, copy.deepcopy(req["tree"]))
    c02.install(tree, [(tuple(k), c02.fault_from_json(f)) for k, f in req.get("faults") or ()])
    rs = RequestState(tree, None, rid)
    rs.events = list(req["events"])
    rs.source_calls = []
    rs.yielded = 0
    return rs


def build_request(c, schema, plan, doc_opts=None):
    """-> request spec with events drawn and reference expectations computable"""
    opts = dict(doc_opts or DOC_OPTS)
    if c.maybe(30):
        # a document that also holds query operations; the request names the subscription
        opts.update(op_types=["subscription", "query"], max_ops=3)
    spec, gstats = c01.build_request(c, schema, plan, opts, only_type="subscription")
    tree = Tree(schema, c, None)
    root = schema["roots"]["subscription"]
    n = c.weighted([(1, 0), (2, 1), (2, 2), (3, 3), (2, 4)])
    events, faults = [], []
    for i in range(n):
        kind = c.weighted([(8, "node"), (1, "EMPTY"), (1, "NONE")])
        events.append(tree.new_node(root)["_nid"] if kind == "node" else kind)
    spec["tree"] = tree.store
    spec["events"] = events
    spec["faults"] = []
    spec["decoy"] = None
    if c.maybe(40):
        # an initial_value that must NOT be what the events are executed against
        decoy = tree.new_node(root)
        Executor(schema, spec["doc"], RefProvider(tree)).execute(spec["op"], spec["variables"], root_value=decoy)
        spec["decoy"] = decoy["_nid"]
    # draw the data of every event through a reference run, then maybe plant failures
    for i, nid in enumerate(events):
        if not isinstance(nid, int):
            continue
        ex = Executor(schema, spec["doc"], RefProvider(tree))
        ex.execute(spec["op"], spec["variables"], root_value=tree.node(nid))
        if c.maybe(35):
            cands = [(p, co, pn) for p, co, pn, args in ex.calls if not co.split(".")[1].startswith("__")]
            if cands:
                p, co, pn = cands[c.int(0, len(cands) - 1)]
                kind = c.choice(["raise", "return_exception", "raise_tartiflette"])
                payload = {"message": "user message", "extensions": {"code": 1}} if kind == "raise_tartiflette" else None
                spec["faults"].append([["$at", pn, co.split(".")[1]], {"kind": kind, "payload": payload}])
    spec["tree"] = tree.store
    return spec


def expectations(spec):
    """-> ("invalid", reason) | ("ok", [ (expected data, ref errors, executor) per event ], source args)"""
    schema = spec["schema"]
    tree = Tree(schema, None, copy.deepcopy(spec["tree"]))
    c02.install(tree, [(tuple(k), c02.fault_from_json(f)) for k, f in spec.get("faults") or ()])
    out = []
    ex0 = Executor(schema, spec["doc"], RefProvider(tree))
    try:
        op = ex0.get_operation(spec["op"])
    except RefRequestError as e:
        return ("invalid", str(e))
    values, bad = coerce_variable_values(schema, op, spec["variables"])
    if bad:
        return ("invalid", "variables %r" % (bad,))
    root = schema["roots"]["subscription"]
    ex0.vars = values
    grouped = ex0.collect(root, op["sels"], {}, set())
    key = list(grouped)[0]
    node = grouped[key][0]
    fd = schema["types"][root]["fields"][node["name"]]
    try:
        src_args = coerce_argument_values(schema, fd.get("args"), node.get("args"), values)
    except RefInputError as e:
        return ("source_error", str(e))
    for nid in spec["events"]:
        ex = Executor(schema, spec["doc"], RefProvider(tree))
        # a falsy payload ({} or None) is still the root value of its event: every root field resolves to null
        data = ex.execute(spec["op"], spec["variables"], root_value=tree.node(nid) if isinstance(nid, int) else {})
        out.append((data, ex.final_errors(), ex))
    return ("ok", out, (node["name"], src_args))


async def consume_plain(h, spec, rs, text):
    out = []
    kw = {}
    if spec.get("decoy") is not None:
        kw["initial_value"] = rs.mat.obj(rs.tree.node(spec["decoy"]))
    try:
        async for resp in h.engine.subscribe(text, operation_name=spec["op"], context=rs.ctx, variables=copy.deepcopy(spec["variables"]), **kw):
            out.append(resp)
    except Exception as e:  # noqa - failures are to be *yielded* as errors, never raised out of the stream
        raise Violation(spec, "subscribe raised %r after %d responses\nquery:\n%s\nvariables=%r" % (e, len(out), text, spec["variables"]), tag="raised")
    return out


def check_one(spec, got, rs, printed, label=""):
    exp = ("invalid", spec["invalid"]) if spec.get("invalid") else expectations(spec)
    ctx = "\n%squery:\n%s\nvariables=%r events=%r faults=%r\nyielded=%s" % (label, printed.text, spec["variables"], spec["events"], spec.get("faults"), str(got)[:1500])
    if exp[0] == "invalid" or spec.get("invalid"):
        if len(got) != 1 or got[0].get("data") is not None or not got[0].get("errors"):
            raise Violation(spec, "an invalid subscription request must yield exactly one errors-only response" + ctx, tag="invalid_shape")
        if rs.source_calls or rs.yielded or rs.calls:
            raise Violation(spec, "an invalid subscription request started the source / resolvers: %r %r" % (rs.source_calls, rs.calls[:2]) + ctx, tag="invalid_started")
        return "invalid"
    if exp[0] == "source_error":
        return "source_error"
    _, per_event, (src_field, src_args) = exp
    if len(got) != len(per_event):
        raise Violation(spec, "%d responses for %d source events" % (len(got), len(per_event)) + ctx, tag="count")
    if len(rs.source_calls) != 1:
        raise Violation(spec, "source stream started %d times" % len(rs.source_calls) + ctx, tag="source_calls")
    fn, args, okctx = rs.source_calls[0]
    if fn != src_field or canon(core.jsonable(args)) != canon(core.jsonable(src_args)) or not okctx:
        raise Violation(spec, "source %s started with %r (ctx ok=%s); the specification prescribes %s with %r" % (fn, args, okctx, src_field, src_args) + ctx, tag="source_args")
    for i, (resp, (data, ref_errors, ex)) in enumerate(zip(got, per_event)):
        c02.compare_response(spec, printed, resp, data, ref_errors, ex, "\nevent #%d%s\nreference data=%s" % (i, ctx, c01.ordered(data)))
    return "ok"


def root_key_repeated(doc):
    """the subscription selects its single response key more than once (merged by CollectFields)"""
    def count(sels):
        return sum(count(x["sels"]) if x["k"] == "inline" else 1 for x in sels)
    return any(d["k"] == "op" and d["type"] == "subscription" and count(d["sels"]) > 1 for d in doc["defs"])


def is_nontrivial(spec, pattern):
    ev = spec["events"]
    nids_with_fault = {f[0][1] for f in spec.get("faults") or ()}
    middle_fail = len(ev) >= 3 and any(True for f in spec.get("faults") or ()) and not spec.get("invalid")
    return middle_fail or pattern != "plain"


def run_pattern(c, h, schema, spec, pattern, script=None):
    printed = print_document(spec["doc"])
    if pattern == "plain":
        rs = new_state(schema, spec)
        h.gate = None
        got = run_async(consume_plain(h, spec, rs, printed.text))
        return check_one(spec, got, rs, printed)
    if pattern == "scheduled":
        rs = new_state(schema, spec, 1)
        s = Sched()
        h.gate = s.gate
        try:
            got, left = run_async(s.drive(consume_plain(h, spec, rs, printed.text), script or []))
        except Deadlock as e:
            raise Violation(dict(spec, schedule=script), "subscription does not terminate: %s" % e, tag="deadlock")
        finally:
            h.gate = None
        if s.pending or left:
            raise Violation(dict(spec, schedule=script), "dangling work after the stream ended: %r %r" % (s.pending, left), tag="dangling")
        return check_one(dict(spec, schedule=script), got, rs, printed, "schedule=%r\n" % (script,))
    raise AssertionError(pattern)


def run_alternate(h, schema, spec_a, spec_b, order):
    pa, pb = print_document(spec_a["doc"]), print_document(spec_b["doc"])
    ra, rb = new_state(schema, spec_a, 1), new_state(schema, spec_b, 2)
    h.gate = None

    async def go():
        ita = h.engine.subscribe(pa.text, operation_name=spec_a["op"], context=ra.ctx, variables=copy.deepcopy(spec_a["variables"])).__aiter__()
        itb = h.engine.subscribe(pb.text, operation_name=spec_b["op"], context=rb.ctx, variables=copy.deepcopy(spec_b["variables"])).__aiter__()
        outs = {"a": [], "b": []}
        its = {"a": ita, "b": itb}
        done = set()
        seq = list(order)
        while len(done) < 2:
            k = seq.pop(0) if seq else ("a" if "a" not in done else "b")
            if k in done:
                k = "a" if k == "b" else "b"
            try:
                outs[k].append(await its[k].__anext__())
            except StopAsyncIteration:
                done.add(k)
            except Exception as e:  # noqa
                sp = spec_a if k == "a" else spec_b
                raise Violation(sp, "subscribe raised %r\nquery:\n%s\nvariables=%r" % (e, (pa if k == "a" else pb).text, sp["variables"]), tag="raised")
        return outs

    outs = run_async(go())
    check_one(spec_a, outs["a"], ra, pa, "alternating with another subscription (a)\n")
    check_one(spec_b, outs["b"], rb, pb, "alternating with another subscription (b)\n")


def case(c, stats):
    schema, plan = c01.build_schema(c, {"subscription": True, "max_objects": 3})
    if c.maybe(30):
        add_schema_directive(schema)  # a pass-through directive on the schema wraps every subscription
    plan["default_fields"] = []  # every field harness-resolved, so failures can be planted anywhere
    clean_registry()
    h = SubHarness(schema, plan, None)
    run_async(h.build())
    prev = None
    for _ in range(REQUESTS_PER_ENGINE):
        spec = build_request(c, schema, plan)
        kind = c.weighted([(6, "valid"), (2, "invalid_doc"), (2, "bad_variables")])
        if kind == "invalid_doc":
            ms = list(mutants(schema, spec["doc"]))
            if ms:
                rewrite, site, _, mdoc = ms[c.int(0, len(ms) - 1)]
                if core.findings_for("C07") and any(f["status"] == "open" and f["signature"].get("rewrite") == rewrite for f in core.findings_for("C07")):
                    kind = "valid"  # documents C07 already lists as wrongly accepted are not used as "invalid" here
                else:
                    spec["doc"] = mdoc
                    spec["invalid"] = rewrite
        elif kind == "bad_variables":
            ops = [d for d in spec["doc"]["defs"] if d["k"] == "op"]
            vs = ops[0].get("vars") or []
            if vs:
                v = vs[c.int(0, len(vs) - 1)]
                spec["variables"] = dict(spec["variables"])
                spec["variables"][v["name"]] = {"zz": [object.__name__]} if not v["type"].startswith("[") else {"zz": 1}
        pattern = c.weighted([(4, "plain"), (4, "scheduled"), (2, "alternate")])
        if pattern == "alternate" and prev is not None:
            order = [c.choice(["a", "b"]) for _ in range(c.int(2, 10))]
            run_alternate(h, schema, spec, prev, order)
            outcome = "alternate"
        else:
            pattern = "plain" if pattern == "alternate" else pattern
            script = [c.int(0, 5) for _ in range(c.int(1, 14))] if pattern == "scheduled" else None
            outcome = run_pattern(c, h, schema, spec, pattern, script)
        if kind == "valid" and outcome == "ok" and c.maybe(40):
            # the very same text again with its Boolean variables flipped (other @skip/@include decisions, fresh data)
            bools = [k for k, v in (spec["variables"] or {}).items() if isinstance(v, bool)]
            if bools:
                spec2 = copy.deepcopy(spec)
                for k in bools:
                    if c.maybe(70):
                        spec2["variables"][k] = not spec2["variables"][k]
                spec2["faults"] = []
                t2 = Tree(schema, c, spec2["tree"])
                for nid in spec2["events"]:
                    if isinstance(nid, int):
                        Executor(schema, spec2["doc"], RefProvider(t2)).execute(spec2["op"], spec2["variables"], root_value=t2.node(nid))
                if spec2.get("decoy") is not None:
                    Executor(schema, spec2["doc"], RefProvider(t2)).execute(spec2["op"], spec2["variables"], root_value=t2.node(spec2["decoy"]))
                spec2["tree"] = t2.store
                run_pattern(c, h, schema, spec2, "plain")
                stats.case({"d": spec2["doc"], "v": spec2["variables"], "e": spec2["events"], "s": schema["types"]}, True, ["same_text_other_variables"],
                           {"query": print_document(spec2["doc"]).text, "variables": spec2["variables"], "first_variables": spec["variables"]})
        prev = spec if not spec.get("invalid") else prev
        stats.case({"d": spec["doc"], "v": spec["variables"], "e": spec["events"], "f": spec["faults"], "p": pattern, "s": schema["types"]}, is_nontrivial(spec, pattern),
                   ["pattern:" + pattern, "kind:" + kind, "events:%d" % len(spec["events"]), "falsy_event:%s" % any(not isinstance(e, int) for e in spec["events"]), "decoy_initial_value:%s" % (spec.get("decoy") is not None), "outcome:" + str(outcome), "faults:%d" % len(spec["faults"]),
                    "root_key_repeated:%s" % (kind == "valid" and root_key_repeated(spec["doc"]))],
                   {"query": print_document(spec["doc"]).text, "variables": spec["variables"], "events": len(spec["events"]), "faults": spec["faults"], "pattern": pattern})


def run_worker(seed, tier, index, nworkers):
    stats = core.Stats(max_samples=3)
    scale = float(os.environ.get("TFV_SCALE", "1"))
    n = max(1, int(CASES[tier] * scale / nworkers / REQUESTS_PER_ENGINE))
    v = core.run_property(case, seed, n, stats, budget_s=BUDGET[tier], shrink=True)
    out = stats.export()
    out["violations"] = [{"spec": core.jsonable(v.spec), "message": v.message}] if v else []
    return out


def replay(spec):
    clean_registry()
    h = SubHarness(spec["schema"], spec["plan"], None)
    run_async(h.build())
    if "schedule" in spec and spec["schedule"] is not None:
        run_pattern(None, h, spec["schema"], spec, "scheduled", spec["schedule"])
    else:
        run_pattern(None, h, spec["schema"], spec, "plain")


TECHNIQUE = "property-based testing over event histories (Hypothesis) with a controlled scheduler for interleaved consumption; differential oracle = reference execution of the selection per event"
LEVEL_TEXT = (
    "Generated subscription documents and finite event sequences (incl. failing and null payload parts) are consumed in three patterns; "
    "the yielded sequence must match the reference's per-event execution in number, order and content, the source must be started once "
    "with the spec-coerced arguments, and invalid requests must yield one errors-only response without starting the source."
)
LEVEL_NOTE = "trusts: reference executor; harness sources are finite async generators driven by the harness"
