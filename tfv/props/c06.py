"""C06 - documents valid by construction are never refused by validation."""
import copy
import itertools
import os

from tfv import core
from tfv.core import Violation, run_async
from tfv.model import print_document
from tfv.impl import clean_registry
from tfv.mutate import mutants
from tfv.props import c01
from tfv.props.c14 import SubHarness, root_key_repeated

ID = "C06"
LEVEL = "exploration"
WORKERS = {"quick": 8, "thorough": 16}
CASES = {"quick": 10000, "thorough": 250000}
BUDGET = {"quick": 50, "thorough": 540}
RULE = (
    "case = generated schema x document valid by construction against all June-2018 rules (incl. field merging), "
    "fragment-heavy generator weights x each operation; oracle = no error with a validation tag, no generic parse "
    "failure, data equals the reference; a quarter of the engines also have a subscription root and the document defines "
    "subscription operations next to the executed query; 15% of the requests are preceded by a rule-breaking rewrite of the "
    "same document on the same engine (same names; C07's catalogue), which must leave nothing behind. Distinct = SHA-1 of the case; non-trivial = the document shares a fragment "
    "(spread >= 2 times or reached along >= 2 paths), or has >= 2 operations using the same variable-carrying "
    "fragment, or carries directives in >= 3 location kinds."
)
ASSUMPTIONS = c01.ASSUMPTIONS
DOC_OPTS = {"max_frags": 6, "w_spread": 30, "w_inline": 16, "w_repeat": 10, "max_nodes": 30}
REQUESTS_PER_ENGINE = 6


def features(doc):
    spreads = {}
    dir_locs = set()
    order = {}
    uses_before_def = False
    frag_vars = {}

    def walk(sels, owner):
        for s in sels:
            for d in s.get("dirs") or ():
                dir_locs.add({"field": "FIELD", "spread": "FRAGMENT_SPREAD", "inline": "INLINE_FRAGMENT"}[s["k"]])
            if s["k"] == "spread":
                spreads.setdefault(s["name"], []).append(owner)
            elif s.get("sels"):
                walk(s["sels"], owner)

    for i, d in enumerate(doc["defs"]):
        if d["k"] == "frag":
            order[d["name"]] = i
    for i, d in enumerate(doc["defs"]):
        if d.get("dirs"):
            dir_locs.add("FRAGMENT_DEFINITION" if d["k"] == "frag" else d["type"].upper())
        owner = d["name"] if d["k"] == "frag" else ("op", i)
        walk(d["sels"], owner)
    for name, owners in spreads.items():
        for o in owners:
            oi = order.get(o) if isinstance(o, str) else o[1]
            if oi is not None and oi < order.get(name, -1):
                uses_before_def = True
    shared = any(len(o) >= 2 for o in spreads.values())
    multi_op_frag = any(len({o for o in owners if not isinstance(o, str)}) >= 2 for owners in spreads.values())
    f = set()
    if shared:
        f.add("shared_fragment")
    if multi_op_frag:
        f.add("fragment_in_several_operations")
    if uses_before_def:
        f.add("fragment_defined_after_use")
    if len(dir_locs) >= 3:
        f.add("directives_in_3_location_kinds")
    return f


async def run_poison(h, spec):
    """a rule-breaking rewrite of the same document (same fragment / operation / variable names), sent first: whatever the
    engine answers (C07 judges that), nothing of it may stay behind and get the valid document refused"""
    text = print_document(spec["poison"]).text
    try:
        await h.engine.execute(text, operation_name=spec["op"], context=h.ctx_token, variables=copy.deepcopy(spec["variables"]))
    except Exception:  # noqa - not this property's business
        pass


def make_harness(schema, plan):
    if schema["roots"].get("subscription"):
        clean_registry()
        h = SubHarness(schema, plan, None)
        run_async(h.build(**(plan.get("engine_kwargs") or {})))
        return h
    return run_async(c01.make_harness(schema, plan))


def check(spec, chooser=None, h=None):
    if h is None:
        h = make_harness(spec["schema"], spec["plan"])
    if spec.get("poison"):
        run_async(run_poison(h, spec))
    try:
        flags = c01.check(spec, chooser, h)
    except Violation as v:
        if v.tag == "errors":
            raise Violation(spec, "valid document refused / not executed cleanly: " + v.message, tag="refused")
        raise
    return flags


def case(c, stats):
    mixed = c.maybe(25)  # documents that also define subscription operations; a query / mutation of them is executed
    schema, plan = c01.build_schema(c, {"subscription": True} if mixed else None)
    h = make_harness(schema, plan)
    opts = dict(DOC_OPTS)
    if mixed:
        opts.update(op_types=["query", "subscription"] + (["mutation"] if schema["roots"].get("mutation") else []), max_ops=3)
    for _ in range(REQUESTS_PER_ENGINE):
        only = None
        if mixed:
            only = "query"
        spec, gstats = c01.build_request(c, schema, plan, opts, only_type=only)
        if c.maybe(15):
            # the k-th rewrite of the catalogue (lazily: enumerating them all costs more than the request itself)
            k = c.int(0, 80)
            last = None
            for last in itertools.islice(mutants(schema, spec["doc"], limit_per_rewrite=1), k + 1):
                pass
            if last is not None:
                spec["poison"] = last[3]
        check(spec, c, h)
        f = features(spec["doc"])
        if spec.get("poison"):
            f.add("after_an_invalid_twin")
        if mixed and any(d["k"] == "op" and d["type"] == "subscription" for d in spec["doc"]["defs"]):
            f.add("subscription_in_same_document")
            if root_key_repeated(spec["doc"]):
                f.add("subscription_root_key_repeated")
        nontrivial = bool(f & {"shared_fragment", "fragment_in_several_operations", "directives_in_3_location_kinds"})
        sample = {"query": print_document(spec["doc"]).text, "features": sorted(f)}
        stats.case(spec, nontrivial, sorted(f) + [k for k in ("var_nested", "var_nn_via_default", "merged_key", "alias_to_avoid_conflict") if gstats.get(k)], sample)


def run_worker(seed, tier, index, nworkers):
    stats = core.Stats()
    scale = float(os.environ.get("TFV_SCALE", "1"))
    n = max(1, int(CASES[tier] * scale / nworkers / REQUESTS_PER_ENGINE))
    v = core.run_property(case, seed, n, stats, budget_s=BUDGET[tier], shrink=True)
    out = stats.export()
    out["violations"] = [{"spec": core.jsonable(v.spec), "message": v.message}] if v else []
    return out


def replay(spec):
    check(spec, None)


TECHNIQUE = "property-based testing (Hypothesis): documents valid by construction must be accepted and executed (validity oracle + differential data check)"
LEVEL_TEXT = (
    "Generated-input search over fragment-heavy documents that are valid by construction (field merging, variable typing, "
    "spread possibility, uniqueness rules all respected by the generator); the engine must not answer with validation errors "
    "and must return the reference data. Exploration with stated bounds."
)
LEVEL_NOTE = "trusts: generator validity-by-construction (any rejection is first re-derived by hand before being called a finding), reference executor, stand-in query parser"
