"""C07 - documents breaking a supported validation rule are refused and nothing runs."""
import copy
import os

from tfv import core
from tfv.core import Violation, run_async
from tfv.data import Tree
from tfv.model import print_document
from tfv.mutate import mutants
from tfv.props import c01, c14

ID = "C07"
LEVEL = "fault_enumeration"
WORKERS = {"quick": 8, "thorough": 16}
CASES = {"quick": 160, "thorough": 4000}  # carriers; each is mutated at every applicable site
BUDGET = {"quick": 50, "thorough": 540}
MAX_MUTANTS_PER_CARRIER = 400
RULE = (
    "carrier = generated schema x valid document (C06 generator, smaller); every rewrite of the catalogue "
    "(tfv/mutate.py: 26 rewrite kinds, each certain to break one documented rule) is applied at every applicable site "
    "of the carrier (capped at 400 per carrier, deterministic stride); oracle = data is null, errors non-empty, and the "
    "harness counters of resolvers, type resolvers and field/argument/value-level directive hooks are all zero. "
    "Distinct = SHA-1 of (schema, mutated document); non-trivial = the violation site is inside a fragment, a nested "
    "selection, a directive argument or a nested input value (not at the top level of an operation)."
)
ASSUMPTIONS = c01.ASSUMPTIONS + ["each rewrite certainly violates its rule (hand-derived; see DESIGN C07)"]
DOC_OPTS = {"max_frags": 3, "max_nodes": 14, "max_sels": 3, "max_depth": 3}
SCHEMA_OPTS = {"subscription": False}


def known_signature(rewrite, site_class):
    for f in core.findings_for(ID):
        if f["status"] != "open":
            continue
        sig = f["signature"]
        if sig.get("rewrite") == rewrite and site_class.startswith(sig.get("site_class_prefix", "")):
            if all(x in site_class for x in sig.get("site_class_contains", [])):
                return f["id"]
    return None


async def run_mutant(h, spec):
    h.set_tree(Tree(spec["schema"], None, copy.deepcopy(spec["tree"])))
    printed = print_document(spec["doc"])
    op = spec["op"]
    if spec.get("subscribe"):
        h.rs.events = list(spec.get("events") or ())
        h.rs.source_calls = []
        h.rs.yielded = 0
        out = []
        try:
            async for r in h.engine.subscribe(printed.text, operation_name=op, context=h.ctx_token, variables=copy.deepcopy(spec["variables"])):
                out.append(r)
        except Exception as e:  # noqa - an invalid document must be *answered*, not make subscribe raise
            return printed, {"$stream": out, "$raised": repr(e)}
        return printed, {"$stream": out}
    resp = await h.engine.execute(
        printed.text, operation_name=op, context=h.ctx_token, variables=copy.deepcopy(spec["variables"]),
        initial_value=h.root_value(spec["root"]),
    )
    return printed, resp


def check_mutant(spec, h=None):
    if h is None:
        h = run_async(c01.make_harness(spec["schema"], spec["plan"]))
    printed, resp = run_async(run_mutant(h, spec))
    stream_note = ""
    if "$stream" in resp:
        stream = resp["$stream"]
        stream_note = " [subscribe yielded %d responses; source started: %r%s]" % (len(stream), h.rs.source_calls, "; subscribe raised " + resp["$raised"] if "$raised" in resp else "")
        if len(stream) != 1 or h.rs.source_calls or h.rs.yielded or "$raised" in resp:
            resp = {"data": {"$stream": len(stream)}, "errors": None}  # forces the refusal test below to fail with details
        else:
            resp = stream[0]
    ctx = stream_note + "\nrewrite=%s site=%s\nquery:\n%s\nvariables=%r op=%r" % (spec["rewrite"], spec["site_class"], printed.text, spec["variables"], spec["op"])
    ran = []
    if h.calls:
        ran.append("resolvers %r" % [c[1] for c in h.calls][:4])
    if h.type_calls:
        ran.append("type resolvers")
    if h.hooks:
        ran.append("directive hooks %r" % h.hooks[:4])
    if resp.get("data") is not None or not resp.get("errors") or ran:
        what = []
        if resp.get("data") is not None:
            what.append("data is not null")
        if not resp.get("errors"):
            what.append("no errors reported")
        if ran:
            what.append("something ran: " + "; ".join(ran))
        raise Violation(spec, "invalid document not refused (%s); response=%r%s" % (", ".join(what), str(resp)[:400], ctx), tag="%s|%s" % (spec["rewrite"], spec["site_class"]))


def make_sub_harness(schema, plan):
    c14.clean_registry()
    h = c14.SubHarness(schema, plan, None)
    run_async(h.build())
    return h


def case(c, stats):
    subscription = c.maybe(25)
    schema, plan = c01.build_schema(c, dict(SCHEMA_OPTS, subscription=subscription))
    extra = {}
    if subscription:
        plan["default_fields"] = []
        h = make_sub_harness(schema, plan)
        spec = c14.build_request(c, schema, plan, dict(c14.DOC_OPTS, max_ops=3))
        root = schema["roots"]["subscription"]
        extra = {"subscribe": True, "events": spec["events"]}
    else:
        h = run_async(c01.make_harness(schema, plan))
        spec, gstats = c01.build_request(c, schema, plan, DOC_OPTS)
        # make sure the carrier itself is fine (and draw its data)
        tree, ex, expected, root = c01.reference(spec, c)
    ms = list(mutants(schema, spec["doc"]))
    if len(ms) > MAX_MUTANTS_PER_CARRIER:
        stride = len(ms) / MAX_MUTANTS_PER_CARRIER
        ms = [ms[int(i * stride)] for i in range(MAX_MUTANTS_PER_CARRIER)]
        stats.hist["carriers_capped"] = stats.hist.get("carriers_capped", 0) + 1
    opname = spec["op"]
    for rewrite, site_class, nontrivial, mdoc in ms:
        ops = [d for d in mdoc["defs"] if d["k"] == "op"]
        op = opname
        if op is None and len(ops) > 1:
            op = None  # ambiguous anonymous selection: still must be refused
        mspec = {"schema": schema, "plan": plan, "doc": mdoc, "op": op, "variables": spec["variables"], "tree": spec["tree"], "root": root, "rewrite": rewrite, "site_class": site_class}
        mspec.update(extra)
        try:
            check_mutant(mspec, h)
        except Violation as v:
            fid = known_signature(rewrite, site_class)
            if fid is None:
                raise
            stats.known(fid)
        key = {"schema": schema, "doc": mdoc}
        stats.case(key, nontrivial, ["rewrite:" + rewrite, "site:" + rewrite + "/" + site_class.split("@")[0]], {"rewrite": rewrite, "site_class": site_class, "query": print_document(mdoc).text})


def run_worker(seed, tier, index, nworkers):
    stats = core.Stats(max_samples=3)
    scale = float(os.environ.get("TFV_SCALE", "1"))
    n = max(1, int(CASES[tier] * scale / nworkers))
    v = core.run_property(case, seed, n, stats, budget_s=BUDGET[tier], shrink=True)
    out = stats.export()
    out["violations"] = [{"spec": core.jsonable(v.spec), "message": v.message}] if v else []
    return out


def replay(spec):
    check_mutant(spec, make_sub_harness(spec["schema"], spec["plan"]) if spec.get("subscribe") else None)


TECHNIQUE = "fault enumeration over generated carriers: every rewrite of a violation catalogue at every site of Hypothesis-generated valid documents; oracle = refusal + zero harness-side calls"
LEVEL_TEXT = (
    "For each generated valid carrier document, every applicable (rewrite, site) pair of a 26-rewrite catalogue is injected "
    "(exhaustive per carrier up to a cap); each mutated document certainly violates one documented rule and must be answered "
    "with data=null, errors, and no resolver / type-resolver / directive-hook invocation."
)
LEVEL_NOTE = "trusts: that each catalogue rewrite really violates its rule (derived from the June-2018 text), the carrier generator, the stand-in query parser"
