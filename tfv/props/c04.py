"""C04 - variable values are coerced exactly as the specification prescribes."""
import copy
import json
import os

from tfv import core, ref
from tfv.core import Violation, run_async
from tfv.gen import gen_const_value, gen_schema, gen_split, literal_to_json, wrap_type
from tfv.impl import ArgHarness, clean_registry
from tfv.model import BUILTIN_SCALARS, canon, kind_of, named, print_document, ty, ty_str
from tfv.ref import RefInputError, coerce_argument_values, coerce_variable_values

ID = "C04"
LEVEL = "exploration"
WORKERS = {"quick": 8, "thorough": 16}
CASES = {"quick": 90000, "thorough": 2000000}  # requests
BUDGET = {"quick": 50, "thorough": 540}
REQUESTS_PER_ENGINE = 40
RULE = (
    "case = generated input-type universe (built-in and custom scalars, enums, input objects incl. recursive and defaulted "
    "fields, list/non-null nestings to depth 3) x 1-3 variables per operation, each with default in {none, valid, null, ill-typed} "
    "and a provided value in {absent, null, canonical valid value, every single-position corruption of it, random JSON}, plus "
    "undeclared extra variables; each variable is used as a whole argument of an echo field. Oracle = reference CoerceVariableValues: "
    "refusal (data null, zero resolver calls, every offending variable named) exactly when the reference rejects, else the "
    "resolvers observe exactly the reference's coerced dictionaries. Input objects / enums may be spelled as definition + `extend` "
    "block in the SDL; several requests per engine, and the dictionaries handed to resolvers are modified in place after each request "
    "(nothing of that may reach a later one); a quarter of the accepted requests are re-sent as a subscription on the same echo "
    "field, where source generator and resolver must observe the same dictionary. Distinct = SHA-1 of (types, defaults, provided values); "
    "non-trivial = coercion involved a single-value list wrap, an injected default, or an accept/reject decision at depth >= 2."
)
ASSUMPTIONS = ["integral floats for Int/ID are transport-dependent: accepted either way, but if accepted the delivered value must be the equal int/str"]


def gen_types(c, schema):
    names = list(BUILTIN_SCALARS) + [n for n, d in schema["types"].items() if d["kind"] in ("SCALAR", "ENUM", "INPUT")]
    out = []
    inputs = [n for n, d in schema["types"].items() if d["kind"] == "INPUT"]
    for _ in range(c.int(3, 6)):
        n = c.choice(inputs) if inputs and c.maybe(45) else c.choice(names)
        out.append(wrap_type(c, n, max_depth=3))
    return out


WRONG = [None, True, False, 0, 1, -1, 2 ** 31, -(2 ** 31) - 1, 1.5, 5.0, "", "1", "abc", "E0_A", "w:x", [], [None], [1], {}, {"f0": 1}, {"zz": 1}, 2, 3, "i:x", 1e400]


def positions(schema, t, v, path=()):
    """yield (path, type) for every position of JSON value v typed t"""
    yield path, t
    tn = t[1] if t[0] == "NN" else t
    if v is None:
        return
    if tn[0] == "L":
        if isinstance(v, list):
            for i, x in enumerate(v):
                yield from positions(schema, tn[1], x, path + (i,))
        else:
            yield from positions(schema, tn[1], v, path)
        return
    if kind_of(schema, tn[1]) == "INPUT" and isinstance(v, dict):
        for fn, fd in schema["types"][tn[1]]["fields"].items():
            if fn in v:
                yield from positions(schema, ty(fd["type"]), v[fn], path + (fn,))


def set_at(v, path, new):
    if not path:
        return new
    v = copy.deepcopy(v)
    x = v
    for k in path[:-1]:
        x = x[k]
    x[path[-1]] = new
    return v


def del_at(v, path):
    v = copy.deepcopy(v)
    x = v
    for k in path[:-1]:
        x = x[k]
    del x[path[-1]]
    return v


def corruptions(c, schema, t, v):
    """single-position corruptions of a valid JSON value (the reference decides what each one means)"""
    out = []
    seen = set()
    for path, pt in positions(schema, t, v):
        if path in seen:
            continue
        seen.add(path)
        for w in WRONG:
            out.append(("replace", set_at(v, path, w)))
        if path and isinstance(path[-1], str):
            out.append(("drop_field", del_at(v, path)))
        tn = pt[1] if pt[0] == "NN" else pt
        if tn[0] == "N" and kind_of(schema, tn[1]) == "INPUT":
            try:
                cur = v
                for k in path:
                    cur = cur[k]
                if isinstance(cur, dict):
                    out.append(("extra_field", set_at(v, path, dict(cur, zzUnknown=1))))
            except (KeyError, IndexError, TypeError):
                pass
    return out


def gen_json(c, depth=0):
    k = c.weighted([(3, "int"), (2, "str"), (2, "none"), (2, "bool"), (2, "float"), (3, "list"), (3, "obj")])
    if k == "int":
        return c.choice([0, 1, -1, 2 ** 31 - 1, 2 ** 31, 42])
    if k == "str":
        return c.choice(["", "a", "1", "E0_A", "E1_B", "w:a"])
    if k == "none":
        return None
    if k == "bool":
        return c.maybe(50)
    if k == "float":
        return c.choice([1.5, 2.0, -0.0, 1e100])
    if k == "list":
        return [gen_json(c, depth + 1) for _ in range(0 if depth > 2 else c.int(0, 2))]
    return {fn: gen_json(c, depth + 1) for fn in (["f0", "f1", "f2", "f3"][: 0 if depth > 2 else c.int(0, 3)])}


def ill_typed_default(schema, t):
    base = named(t)
    if base in ("Int", "Float", "Boolean") or kind_of(schema, base) in ("ENUM", "INPUT"):
        return ["str", "ill-typed"]
    return ["obj", [["zz", ["int", "1"]]]]


def build_engine(c):
    schema = gen_schema(c, {"max_objects": 1, "max_interfaces": 0, "max_unions": 0, "max_enums": 2, "max_inputs": 3, "max_scalars": 2, "mutation": False, "custom_roots": False, "args": False, "query_directive": False, "schema_directive": False})
    types = gen_types(c, schema)
    q = {"kind": "OBJECT", "fields": {}, "interfaces": []}
    for i, t in enumerate(types):
        ad = {"type": t}
        if c.maybe(25):
            ad["default"] = gen_const_value(c, schema, ty(t), block=False)
        q["fields"]["e%d" % i] = {"type": "String", "args": {"a": ad}}
    schema["types"] = {n: d for n, d in schema["types"].items() if d["kind"] in ("SCALAR", "ENUM", "INPUT")}
    schema["types"]["Query"] = q
    # the same echo fields as roots of subscriptions: their source generators get the coerced values too
    schema["types"]["Subscription"] = {"kind": "OBJECT", "interfaces": [], "fields": copy.deepcopy(q["fields"])}
    schema["roots"] = {"query": "Query", "subscription": "Subscription"}
    clean_registry()
    # input objects and enums may be spelled as definition + `extend` block; resolvers work on their arguments in place
    schema["plan"] = {"default_fields": [], "sdl_split": gen_split(c, schema, ("INPUT", "ENUM")), "scramble_args": True}
    h = ArgHarness(schema, schema["plan"], None)
    # echo resolvers
    h.serve = lambda rs, parent, obj, field, args, path: "ok"
    run_async(h.build())
    return schema, types, h


def make_request(c, schema, types):
    """-> spec for one request"""
    nvars = c.int(1, 3)
    vars_, sels, provided = [], [], {}
    labels = []
    for i in range(nvars):
        fi = c.int(0, len(types) - 1)
        at = ty(types[fi])
        # variable type: the argument type or a stricter one (non-null added at the outside)
        vt = at
        if at[0] != "NN" and c.maybe(30):
            vt = ("NN", at)
        vd = {"name": "v%d" % i, "type": ty_str(vt)}
        dk = c.weighted([(5, "none"), (3, "valid"), (1, "null"), (1, "ill")])
        if dk == "valid":
            vd["default"] = gen_const_value(c, schema, vt)
        elif dk == "null" and vt[0] != "NN":
            vd["default"] = ["null"]
        elif dk == "ill":
            vd["default"] = ill_typed_default(schema, vt)
        labels.append("default:" + dk)
        vars_.append(vd)
        sels.append({"k": "field", "alias": "k%d" % i, "name": "e%d" % fi, "args": [["a", ["var", vd["name"]]]], "dirs": [], "sels": None, "id": i + 1})
        pk = c.weighted([(2, "absent"), (1, "null"), (3, "valid"), (6, "corrupt"), (2, "random")])
        labels.append("provided:" + pk)
        if pk == "absent":
            continue
        if pk == "null":
            provided[vd["name"]] = None
            continue
        if pk == "random":
            provided[vd["name"]] = gen_json(c)
            continue
        valid = literal_to_json(schema, vt, gen_const_value(c, schema, vt, nullp=5))
        if pk == "valid":
            provided[vd["name"]] = valid
        else:
            cs = corruptions(c, schema, vt, valid)
            kinds = sorted({l for l, _ in cs})
            kind = c.choice(kinds)
            cs = [x for x in cs if x[0] == kind]
            lab, val = cs[c.int(0, len(cs) - 1)]
            labels.append("corruption:" + lab)
            provided[vd["name"]] = val
    if c.maybe(20):
        provided["zzUndeclared"] = c.choice([1, None, "x", [1]])
        labels.append("extra_undeclared")
    doc = {"defs": [{"k": "op", "type": "query", "name": "Q", "vars": vars_, "dirs": [], "sels": sels, "id": 99}]}
    return {"schema": schema, "types": types, "doc": doc, "variables": provided, "sub_alias": c.choice(sels)["alias"] if c.maybe(25) else None}, labels


def expectation(spec, borderline):
    schema = spec["schema"]
    op = spec["doc"]["defs"][0]
    ref.TRACE.clear()
    values, bad = coerce_variable_values(schema, op, spec["variables"], borderline)
    trace = set(ref.TRACE)
    for vd in op["vars"]:
        if "default" in vd and vd["name"] not in (spec["variables"] or {}):
            trace.add("variable_default")
    if bad:
        return {"bad": bad, "trace": trace}
    calls = {}
    for s in op["sels"]:
        fd = schema["types"]["Query"]["fields"][s["name"]]
        calls[s["alias"]] = coerce_argument_values(schema, fd["args"], s["args"], values)
    return {"bad": None, "calls": calls, "trace": trace}


def check(spec, h=None):
    schema = spec["schema"]
    if h is None:
        clean_registry()
        h = ArgHarness(schema, schema.get("plan") or {"default_fields": []}, None)
        h.serve = lambda rs, parent, obj, field, args, path: "ok"
        run_async(h.build())
        for old in spec.get("history") or ():  # the requests this engine served before (replay of a shrunk failure)
            run_async(h.engine.execute(print_document(old["doc"]).text, operation_name="Q", context=h.ctx_token, variables=core_unjson(copy.deepcopy(old["variables"]))))
            h.scramble_live()
    h.reset_logs()
    printed = print_document(spec["doc"])
    variables = copy.deepcopy(spec["variables"])

    async def go():
        return await h.engine.execute(printed.text, operation_name="Q", context=h.ctx_token, variables=variables)

    resp = run_async(go())
    h.scramble_live()
    e1 = expectation(spec, "reject")
    e2 = expectation(spec, "accept")
    ctx = "\nquery: %s\nvariables: %s\nresponse: %s" % (printed.text, json.dumps(core.jsonable(spec["variables"])), str(resp)[:1200])
    got_calls = {p[0]: args for p, co, nid, args, ok in h.calls}
    failures = []
    for e in ([e1] if canon(core.jsonable(e1.get("bad"))) == canon(core.jsonable(e2.get("bad"))) and canon(core.jsonable(e1.get("calls"))) == canon(core.jsonable(e2.get("calls"))) else [e1, e2]):
        msg = compare(spec, printed, resp, got_calls, e)
        if msg is None:
            msg = check_as_subscription(spec, h, e)
        if msg is None:
            return e1["trace"] | e2["trace"], e
        failures.append(msg)
    raise Violation(spec, failures[0] + ctx, tag="c04")


def check_as_subscription(spec, h, e):
    """one selection of an accepted request sent as a subscription: the source generator and the per-event resolver
    observe the same coerced dictionary the query resolver did"""
    alias = spec.get("sub_alias")
    if alias is None or e["bad"] or not h.schema["roots"].get("subscription"):
        return None
    op = spec["doc"]["defs"][0]
    s = [x for x in op["sels"] if x["alias"] == alias][0]
    used = [s["args"][0][1][1]]
    sdoc = {"defs": [{"k": "op", "type": "subscription", "name": "Q", "vars": [vd for vd in op["vars"] if vd["name"] in used], "dirs": [], "sels": [s], "id": 99}]}
    text = print_document(sdoc).text
    variables = {k: v for k, v in copy.deepcopy(spec["variables"]).items() if k in used or k == "zzUndeclared"}
    h.reset_logs()
    h.sargs = []

    async def go():
        return [r async for r in h.engine.subscribe(text, operation_name="Q", context=h.ctx_token, variables=variables)]

    try:
        out = run_async(go())
    except Exception as ex:  # noqa
        return "subscribe raised %r for %s with %r" % (ex, text, variables)
    h.scramble_live()
    want = e["calls"][alias]
    seen = {"source generator": [a for _, a in h.sargs], "resolver": [args for p, co, nid, args, ok in h.calls]}
    if out != [{"data": {alias: "ok"}}]:
        return "as a subscription (%s, variables %r) the accepted request is answered %r" % (text, variables, out)
    for who, lst in seen.items():
        if len(lst) != 1 or canon(core.jsonable(lst[0])) != canon(core.jsonable(want)) or not same_types(lst[0], want):
            return "as a subscription (%s, variables %r) the %s observed %r, the specification prescribes %r" % (text, variables, who, lst, want)
    return None


def compare(spec, printed, resp, got_calls, e):
    if e["bad"]:
        if resp.get("data") is not None:
            return "request must be refused (reference rejects %r) but data is %r" % (e["bad"], resp.get("data"))
        if got_calls:
            return "request must be refused before any resolver runs, but resolvers ran: %r" % (got_calls,)
        errs = resp.get("errors") or []
        if not errs:
            return "refused without errors"
        for name in e["bad"]:
            span = printed._arg_spans.get(("var", "Q", name))
            named_ = False
            for er in errs:
                if ("$" + name) in er.get("message", ""):
                    named_ = True
                for loc in er.get("locations") or ():
                    off = printed.offset_of(loc.get("line"), loc.get("column"))
                    if off is not None and span and span[0] <= off < span[1]:
                        named_ = True
            if not named_:
                return "offending variable $%s (%s) is not reported by any error" % (name, e["bad"][name])
        return None
    if "errors" in resp:
        return "reference accepts the variables but the response has errors; expected resolver arguments %r" % (e["calls"],)
    if canon(core.jsonable(got_calls)) != canon(core.jsonable(e["calls"])):
        return "resolvers observed %r, the specification prescribes %r" % (got_calls, e["calls"])
    for k, a in got_calls.items():
        if not same_types(a, e["calls"][k]):
            return "resolver %s observed %r with different leaf types than %r" % (k, a, e["calls"][k])
    return None


def same_types(a, b):
    if type(a) is not type(b):
        return False
    if isinstance(a, dict):
        return list(a.keys()) == list(a.keys()) and all(same_types(a[k], b[k]) for k in a)
    if isinstance(a, list):
        return len(a) == len(b) and all(same_types(x, y) for x, y in zip(a, b))
    return True


def case(c, stats):
    schema, types, h = build_engine(c)
    history = []
    for _ in range(REQUESTS_PER_ENGINE):
        spec, labels = make_request(c, schema, types)
        spec["history"] = list(history)
        trace, e = check(spec, h)
        history.append({"doc": spec["doc"], "variables": spec["variables"]})
        labels = labels + sorted("trace:" + t for t in trace) + ["outcome:" + ("refused" if e["bad"] else "accepted")]
        nontrivial = bool(trace & {"list_wrap", "field_default", "variable_default", "depth2"})
        stats.case({"t": spec["types"], "d": spec["doc"], "v": spec["variables"], "s": schema["types"]}, nontrivial, labels,
                   {"query": print_document(spec["doc"]).text, "variables": spec["variables"], "outcome": "refused" if e["bad"] else e["calls"]})


def run_worker(seed, tier, index, nworkers):
    stats = core.Stats(max_samples=4)
    scale = float(os.environ.get("TFV_SCALE", "1"))
    n = max(1, int(CASES[tier] * scale / nworkers / REQUESTS_PER_ENGINE))
    v = core.run_property(case, seed, n, stats, budget_s=BUDGET[tier], shrink=True)
    out = stats.export()
    out["violations"] = [{"spec": core.jsonable(v.spec), "message": v.message}] if v else []
    return out


def replay(spec):
    spec = dict(spec)
    spec["variables"] = core_unjson(spec["variables"])
    check(spec, None)


def core_unjson(j):
    if isinstance(j, dict) and set(j) == {"$float"}:
        return float(j["$float"])
    if isinstance(j, dict):
        return {k: core_unjson(v) for k, v in j.items()}
    if isinstance(j, list):
        return [core_unjson(x) for x in j]
    return j


TECHNIQUE = "property-based testing (Hypothesis): systematic single-position corruptions of valid values against a reference CoerceVariableValues (differential oracle, two-sided)"
LEVEL_TEXT = (
    "Generated input-type universes and variable assignments; each request's outcome (refusal with every offending variable named and "
    "no resolver run, or the exact coerced dictionaries observed by resolvers) is compared with an independent implementation of the "
    "specification's variable coercion, both for accept and reject decisions."
)
LEVEL_NOTE = "trusts: tfv/ref.py coerce_input/coerce_variable_values; custom scalar codecs are harness-supplied"
