"""C03 - returned data conforms to schema and selection whatever resolvers return."""
import copy
import decimal
import fractions
import json
import math
import os

from tfv import core
from tfv.core import Violation, run_async
from tfv.gen import DocGen, gen_schema
from tfv.impl import Harness, PlainObj, clean_registry
from tfv.model import fields_of, kind_of, named, possible_types, print_document, ty
from tfv.props import c01
from tfv.ref import CODECS, Executor, coerce_variable_values
from tartiflette.resolver.default import default_type_resolver  # noqa: E402

ID = "C03"
LEVEL = "exploration"
WORKERS = {"quick": 8, "thorough": 16}
CASES = {"quick": 8000, "thorough": 250000}
BUDGET = {"quick": 50, "thorough": 540}
REQUESTS_PER_ENGINE = 6
RULE = (
    "case = generated schema x valid document x variables; every resolver return value is drawn *during execution* "
    "from a type-aware mixture (about half well-typed, half from an adversarial universe: wrong kinds, boundary ints, "
    "NaN/inf/huge floats, numeric strings, bytes, tuples/sets/generators, Decimal/Fraction, attribute objects, exception "
    "instances and classes, unknown/foreign runtime types), also for list items and abstract values; in half of the cases harness "
    "type resolvers (field / type / engine level) answer adversarially per call (any type name, schema type objects of possible, "
    "impossible and non-object types, garbage); per-field concurrency overrides; leaf lists of 130 / 513 / 530 / 1025 items; "
    "BaseException-only instances as values. Oracle = validity "
    "predicate: execute returns, response is strict-JSON serialisable, non-null data has exactly the collected response keys "
    "(in order) for some possible runtime type, lists where declared, no null at non-null, leaves of the declared wire "
    "kind, every null where the resolver returned a value is covered by an error at or below it. Distinct = SHA-1 of the "
    "(schema, document, recorded returns); non-trivial = at least one position received an ill-typed value and at least "
    "one other position still produced non-null data."
)
ASSUMPTIONS = c01.ASSUMPTIONS + ["all fields have harness resolvers; type resolvers are the engine's default one or harness ones answering adversarially (names or type objects of possible/impossible/non-object types, garbage)"]
INT_MIN, INT_MAX = -(2 ** 31), 2 ** 31 - 1

# ------------------------------------------------------------------ value recipes


def build(r):
    """recipe -> python value"""
    k = r[0]
    if k == "none":
        return None
    if k in ("int", "str", "bool"):
        return r[1]
    if k == "float":
        return float(r[1])
    if k == "bytes":
        return bytes.fromhex(r[1])
    if k == "list":
        return [build(x) for x in r[1]]
    if k == "tuple":
        return tuple(build(x) for x in r[1])
    if k == "set":
        try:
            return set(build(x) for x in r[1])
        except TypeError:
            return frozenset()
    if k == "gen":
        return (build(x) for x in r[1])
    if k == "dict":
        return {kk: build(v) for kk, v in r[1]}
    if k == "decimal":
        return decimal.Decimal(r[1])
    if k == "fraction":
        return fractions.Fraction(r[1])
    if k == "obj":
        o = PlainObj()
        for kk, v in r[1]:
            setattr(o, kk, build(v))
        return o
    if k == "named_obj":
        return type(r[1], (), {"__repr__": lambda self: "<%s instance>" % type(self).__name__})()
    if k == "exc":
        return {"ValueError": ValueError, "KeyError": KeyError, "Exception": Exception}[r[1]](r[2])
    if k == "excobj":
        args = [build(x) for x in r[2]]
        return {"ValueError": ValueError, "KeyError": KeyError, "Exception": Exception}[r[1]](*args)
    if k == "exccls":
        return {"ValueError": ValueError, "KeyError": KeyError, "Exception": Exception}[r[1]]
    if k == "complex":
        return complex(r[1], r[2])
    if k == "baseexc":
        # instances of exception classes outside the Exception hierarchy, as *values* (e.g. an item of
        # asyncio.gather(..., return_exceptions=True) handed on by a resolver)
        import asyncio

        return {"CancelledError": asyncio.CancelledError, "GeneratorExit": GeneratorExit}[r[1]]()
    if k == "pyenum":
        # member of a python Enum (plain, or with a str / int mixin) named r[2] with value r[3]
        import enum

        base = {"plain": (enum.Enum,), "str": (str, enum.Enum), "int": (enum.IntEnum,)}[r[1]]
        cls = enum.Enum("PyEnum", {r[2]: r[3]}, type=base[0]) if r[1] != "plain" else enum.Enum("PyEnum", {r[2]: r[3]})
        return cls[r[2]]
    raise AssertionError(r)


ADV_INTS = [0, 1, -1, 2 ** 31 - 1, 2 ** 31, -(2 ** 31), -(2 ** 31) - 1, 2 ** 53, 2 ** 53 + 1, -(2 ** 53), 10 ** 400, 255, 65536]
ADV_FLOATS = ["0.0", "-0.0", "1.0", "5.0", "-1.0", "1.5", "2147483647.0", "2147483648.0", "-2147483649.0", "1e308", "-1e308", "1e-320", "nan", "inf", "-inf", "9007199254740993.0", "1e20"]
ADV_STRS = ["", " ", "0", "1", "-1", "5.0", "1e3", "0x10", "2147483648", "nan", "inf", "true", "false", "null", "é✓", "a\"b\\c\n", "😀", "E0_A", "w:x", "i:x", "NaN", "١٢٣"]


def gen_adversarial(c, schema, depth=0):
    k = c.weighted([(10, "int"), (10, "float"), (10, "str"), (4, "bool"), (3, "none"), (3, "bytes"), (4, "list"), (3, "tuple"),
                    (2, "set"), (2, "gen"), (4, "dict"), (3, "decimal"), (2, "fraction"), (3, "obj"), (2, "named_obj"), (3, "exc"), (2, "excobj"), (2, "exccls"), (1, "complex"), (3, "pyenum"), (2, "baseexc")])
    if k == "int":
        return ["int", c.choice(ADV_INTS)]
    if k == "float":
        return ["float", c.choice(ADV_FLOATS)]
    if k == "str":
        return ["str", c.choice(ADV_STRS)]
    if k == "bool":
        return ["bool", c.maybe(50)]
    if k == "none":
        return ["none"]
    if k == "bytes":
        return ["bytes", c.choice(["", "00", "31", "ff", "6162"])]
    if k in ("list", "tuple", "set", "gen"):
        n = 0 if depth >= 2 else c.int(0, 3)
        return [k, [gen_adversarial(c, schema, depth + 1) for _ in range(n)]]
    if k == "dict":
        items = []
        if c.maybe(60):
            items.append(["_typename", gen_typename(c, schema)])
        if c.maybe(30) and depth < 2:
            items.append(["x", gen_adversarial(c, schema, depth + 1)])
        return ["dict", items]
    if k == "decimal":
        return ["decimal", c.choice(["5", "5.0", "1.5", "NaN", "Infinity", "2147483648", "-0"])]
    if k == "fraction":
        return ["fraction", c.choice(["1/2", "4/2", "7"])]
    if k == "obj":
        items = []
        if c.maybe(60):
            items.append(["_typename", gen_typename(c, schema)])
        return ["obj", items]
    if k == "named_obj":
        names = [n for n, d in schema["types"].items()] + ["Nope", "int"]
        return ["named_obj", c.choice(names)]
    if k == "exc":
        return ["exc", c.choice(["ValueError", "KeyError", "Exception"]), c.choice(["boom", "", "é"])]
    if k == "excobj":
        # exceptions carrying non-string (even non-JSON) arguments, or none, or several
        nargs = c.weighted([(5, 1), (2, 0), (2, 2)])
        return ["excobj", c.choice(["ValueError", "KeyError", "Exception"]), [c.choice([["bytes", "00ff"], ["set", [["int", 1]]], ["obj", []], ["int", 7], ["none"], ["float", "nan"], ["list", []], ["dict", []]]) for _ in range(nargs)]]
    if k == "exccls":
        return ["exccls", c.choice(["ValueError", "Exception"])]
    if k == "pyenum":
        return gen_pyenum(c, schema)
    if k == "baseexc":
        return ["baseexc", c.choice(["CancelledError", "GeneratorExit"])]
    return ["complex", 1, 2]


def gen_pyenum(c, schema):
    names = ["RED"]
    for n, d in schema["types"].items():
        if d["kind"] == "ENUM":
            names += d["values"]
    kind = c.choice(["plain", "str", "int"])
    name = c.choice(names)
    value = {"plain": c.choice([1, name, "x"]), "str": c.choice([name, "other"]), "int": c.choice([1, 2 ** 31])}[kind]
    return ["pyenum", kind, name, value]


def gen_typename(c, schema):
    k = c.weighted([(5, "object"), (2, "other"), (1, "unknown"), (1, "garbage")])
    if k == "object":
        objs = [n for n, d in schema["types"].items() if d["kind"] == "OBJECT"]
        return ["str", c.choice(objs)]
    if k == "other":
        return ["str", c.choice(list(schema["types"]) + ["Int", "String"])]
    if k == "unknown":
        return ["str", "NoSuchType"]
    return c.choice([["int", 1], ["none"], ["list", []], ["str", ""]])


def gen_welltyped(c, schema, t, depth=0, mix=50):
    """recipe valid for output type t; sub-positions are re-mixed with adversarial values"""
    if t[0] == "NN":
        return gen_welltyped_nn(c, schema, t[1], depth, mix)
    if c.maybe(12):
        return ["none"]
    return gen_welltyped_nn(c, schema, t, depth, mix)


def gen_mixed(c, schema, t, depth=0, mix=50):
    if c.maybe(mix):
        return gen_adversarial(c, schema, depth)
    return gen_welltyped(c, schema, t, depth, mix)


def gen_welltyped_nn(c, schema, t, depth, mix):
    if t[0] == "NN":
        t = t[1]
    if t[0] == "L":
        n = c.int(0, 3 if depth < 2 else 1)
        inner = t[1][1] if t[1][0] == "NN" else t[1]
        if depth == 0 and inner[0] == "N" and kind_of(schema, inner[1]) in ("SCALAR", "ENUM") and c.maybe(3):
            n = c.choice([130, 513, 530, 1025])  # beyond any batch size the engine may use internally; ill-typed items anywhere
            return ["list", [gen_mixed(c, schema, t[1], depth + 1, 6) for _ in range(n)]]
        return ["list", [gen_mixed(c, schema, t[1], depth + 1, mix // 2) for _ in range(n)]]
    name = t[1]
    k = kind_of(schema, name)
    if k == "OBJECT":
        return ["dict", [["_typename", ["str", name]]]]
    if k in ("INTERFACE", "UNION"):
        tn = c.choice(possible_types(schema, name))
        shape = c.weighted([(6, "dict"), (2, "obj"), (2, "named_obj")])
        if shape == "dict":
            return ["dict", [["_typename", ["str", tn]]]]
        if shape == "obj":
            return ["obj", [["_typename", ["str", tn]]]]
        return ["named_obj", tn]
    if k == "ENUM":
        v = c.choice(schema["types"][name]["values"])
        if c.maybe(25):
            return ["pyenum", c.choice(["plain", "str", "int"]), v, c.choice([v, 1])]
        return ["str", v]
    if name == "Int":
        return ["int", c.choice([0, 1, -1, INT_MAX, INT_MIN, c.int(-999, 999)])]
    if name == "Float":
        return ["float", c.choice(["0.0", "1.5", "-2.25", "1e10"])] if c.maybe(80) else ["int", c.int(-9, 9)]
    if name == "String":
        return ["str", c.choice(ADV_STRS)]
    if name == "Boolean":
        return ["bool", c.maybe(50)]
    if name == "ID":
        return ["str", c.choice(["a", "1", ""])] if c.maybe(60) else ["int", c.int(0, 99)]
    codec = schema["types"][name].get("codec", "tagged")
    if codec == "tagged":
        return ["str", "i:" + c.choice(["", "a", "é"])]
    return ["int", c.int(-20, 20)]


def is_welltyped_top(schema, t, r):
    """cheap classification used only for the non-triviality rule"""
    if r[0] == "none":
        return t[0] != "NN"
    if t[0] == "NN":
        t = t[1]
    if t[0] == "L":
        return r[0] == "list"
    name = t[1]
    k = kind_of(schema, name)
    if k in ("OBJECT", "INTERFACE", "UNION"):
        return r[0] in ("dict", "obj", "named_obj")
    if k == "ENUM":
        return (r[0] == "str" and r[1] in schema["types"][name]["values"]) or r[0] == "pyenum"
    if name == "Int":
        return r[0] == "int" and INT_MIN <= r[1] <= INT_MAX
    if name == "Float":
        return (r[0] == "float" and math.isfinite(float(r[1]))) or r[0] == "int"
    if name == "String":
        return r[0] == "str"
    if name == "Boolean":
        return r[0] == "bool"
    if name == "ID":
        return r[0] in ("str", "int")
    return True


# ------------------------------------------------------------------ harness


class AdvHarness(Harness):
    def __init__(self, schema, plan):
        super().__init__(schema, plan, None)
        self.chooser = None
        self.returns = {}  # path-json -> recipe
        self.raw = {}
        self.tseq = {}

    def serve(self, rs, parent, obj, field, args, path):
        key = json.dumps(list(path))
        r = self.returns.get(key)
        if r is None:
            if self.chooser is None:
                r = ["none"]
            else:
                r = gen_mixed(self.chooser, self.schema, ty(fields_of(self.schema, obj)[field]["type"]))
            self.returns[key] = r
        self.raw[path] = r
        if r[0] == "exc" and r[2] == "boom" and len(r) == 3 and self.plan.get("raise_booms", True):
            raise build(r)
        return build(r)

    def _answer(self, value, abstract, level, info, coord, ctx=None):
        """adversarial type resolvers (plan tr_type / tr_field / tr_engine): whatever the level, the answer is drawn
        per call: the default resolver's answer, any type *name*, any schema type *object* (possible or not, object
        type or not), or garbage"""
        rs = self.state_of(ctx)
        path = [k for k in info.path.as_list()]
        self.tseq[json.dumps(path)] = n = self.tseq.get(json.dumps(path), 0) + 1
        key = "T:%s#%d" % (json.dumps(path), n)
        r = self.returns.get(key)
        if r is None:
            if self.chooser is None:
                r = ["truth"]
            else:
                c = self.chooser
                k = c.weighted([(5, "truth"), (2, "name"), (4, "object"), (1, "value")])
                names = list(self.schema["types"]) + ["Int", "NoSuchType"]
                r = {"truth": lambda: ["truth"], "name": lambda: ["name", c.choice(names)], "object": lambda: ["object", c.choice(names)],
                     "value": lambda: ["value", c.choice([["none"], ["int", 1], ["list", []], ["exc", "ValueError", "x"], ["obj", []]])]}[k]()
            self.returns[key] = r
        rs.type_calls.append((tuple(path), abstract, coord, level))
        if r[0] == "truth":
            return default_type_resolver(value, ctx, info, None)
        if r[0] == "name":
            return r[1]
        if r[0] == "object":
            try:
                return info.schema.find_type(r[1])
            except KeyError:
                return r[1]
        return build(r[1])


# ------------------------------------------------------------------ validity predicate


class Nonconforming(Exception):
    pass


def conforms_leaf(schema, name, v, path):
    k = kind_of(schema, name)
    bad = None
    if k == "ENUM":
        if not (isinstance(v, str) and v in schema["types"][name]["values"]):
            bad = "not a declared enum value"
    elif name == "Int":
        if type(v) is not int or not INT_MIN <= v <= INT_MAX:
            bad = "not an int within 32 bits"
    elif name == "Float":
        if isinstance(v, bool) or not isinstance(v, (int, float)) or not math.isfinite(v):
            bad = "not a finite number"
    elif name in ("String", "ID"):
        if not isinstance(v, str):
            bad = "not a string"
    elif name == "Boolean":
        if not isinstance(v, bool):
            bad = "not a boolean"
    else:
        if not CODECS[schema["types"][name].get("codec", "tagged")].is_wire(v):
            bad = "not the custom scalar's wire form"
    if bad:
        raise Nonconforming("%r at %r is %s (%s, python type %s)" % (v, path, bad, name, type(v).__name__))


def conforms(ex, t, nodes, v, path):
    schema = ex.schema
    if t[0] == "NN":
        if v is None:
            raise Nonconforming("null at non-null position %r" % (path,))
        return conforms(ex, t[1], nodes, v, path)
    if v is None:
        return
    if t[0] == "L":
        if not isinstance(v, list):
            raise Nonconforming("non-list %r at list position %r" % (v, path))
        for i, x in enumerate(v):
            conforms(ex, t[1], nodes, x, path + [i])
        return
    name = t[1]
    k = kind_of(schema, name)
    if k in ("SCALAR", "ENUM"):
        return conforms_leaf(schema, name, v, path)
    if not isinstance(v, dict):
        raise Nonconforming("non-object %r at composite position %r" % (v, path))
    last = None
    for obj in possible_types(schema, name):
        try:
            conforms_object(ex, obj, nodes, v, path)
            return
        except Nonconforming as e:
            last = e
    raise last or Nonconforming("no possible type for %r" % (path,))


def conforms_object(ex, obj, nodes, v, path):
    grouped = {}
    visited = set()
    for n in nodes:
        if n.get("sels"):
            ex.collect(obj, n["sels"], grouped, visited)
    conforms_grouped(ex, obj, grouped, v, path)


def conforms_grouped(ex, obj, grouped, v, path):
    keys = [k for k, ns in grouped.items() if ns[0]["name"] == "__typename" or ex.field_def(obj, ns[0]["name"]) is not None]
    if list(v.keys()) != keys:
        raise Nonconforming("keys %r at %r differ from the collected response keys %r of %s" % (list(v.keys()), path, keys, obj))
    for key in keys:
        ns = grouped[key]
        if ns[0]["name"] == "__typename":
            if v[key] != obj:
                raise Nonconforming("__typename %r at %r, expected %s" % (v[key], path + [key], obj))
            continue
        fd = ex.field_def(obj, ns[0]["name"])
        conforms(ex, ty(fd["type"]), ns, v[key], path + [key])


def get_at(data, path):
    """(reachable, value)"""
    x = data
    for k in path:
        if x is None:
            return False, None
        try:
            x = x[k]
        except (KeyError, IndexError, TypeError):
            return False, None
    return True, x


def check_shape_of_errors(errs, text_lines):
    if not isinstance(errs, list) or not errs:
        return "errors must be a non-empty list"
    for e in errs:
        if not isinstance(e, dict) or not isinstance(e.get("message"), str):
            return "entry without string message: %r" % (e,)
        if e.get("path") is not None and not isinstance(e["path"], list):
            return "bad path: %r" % (e,)
        locs = e.get("locations")
        if not isinstance(locs, list):
            return "locations is not a list: %r" % (e,)
        for loc in locs:
            if not (isinstance(loc, dict) and type(loc.get("line")) is int and type(loc.get("column")) is int and loc["line"] >= 1 and loc["column"] >= 1):
                return "bad location: %r" % (e,)
            if loc["line"] > text_lines:
                return "location outside the query text: %r" % (e,)
        if "extensions" in e and not e["extensions"]:
            return "empty extensions present: %r" % (e,)
    return None


def check(spec, chooser=None, h=None):
    schema = spec["schema"]
    if h is None:
        clean_registry()
        h = AdvHarness(schema, spec["plan"])
        run_async(h.build(**(spec["plan"].get("engine_kwargs") or {})))
    h.reset_logs()
    h.chooser = chooser
    h.returns = dict(spec.get("returns") or {})
    h.raw = {}
    h.tseq = {}
    printed = print_document(spec["doc"])
    ex = Executor(schema, spec["doc"], None)
    op = ex.get_operation(spec["op"])
    ex.vars, bad = coerce_variable_values(schema, op, spec["variables"])
    assert not bad, bad
    root = schema["roots"][op["type"]]

    async def go():
        return await h.engine.execute(printed.text, operation_name=spec["op"], context=h.ctx_token, variables=copy.deepcopy(spec["variables"]), initial_value={"_typename": root})

    try:
        resp = run_async(go())
    except (KeyboardInterrupt, SystemExit):
        raise
    except BaseException as e:  # noqa - "execute never raises", whatever the class of what escaped
        spec["returns"] = h.returns
        raise Violation(spec, "execute raised %r\nquery:\n%s\nreturns=%r" % (e, printed.text, h.returns), tag="raised")
    spec["returns"] = h.returns
    ctx = "\nquery:\n%s\nvariables=%r op=%r\nresolver returns=%r\nresponse=%s" % (printed.text, spec["variables"], spec["op"], h.returns, str(resp)[:2000])
    if not isinstance(resp, dict) or "data" not in resp:
        raise Violation(spec, "response is not a dict with data" + ctx, tag="envelope")
    try:
        json.dumps(resp, allow_nan=False)
    except (TypeError, ValueError) as e:
        raise Violation(spec, "response is not JSON-serialisable: %s%s" % (e, ctx), tag="json")
    errs = resp.get("errors")
    if "errors" in resp:
        msg = check_shape_of_errors(errs, printed.text.count("\n") + 1)
        if msg:
            raise Violation(spec, "malformed errors: " + msg + ctx, tag="errors_shape")
    data = resp["data"]
    if data is None:
        if not errs:
            raise Violation(spec, "data is null without errors" + ctx, tag="null_without_error")
    else:
        grouped = ex.collect(root, op["sels"], {}, set())
        try:
            if not isinstance(data, dict):
                raise Nonconforming("data is not an object")
            conforms_grouped(ex, root, grouped, data, [])
        except Nonconforming as e:
            raise Violation(spec, "data does not conform to schema/selection: %s%s" % (e, ctx), tag="nonconforming")
    # nulls must be explained
    err_paths = [tuple(e["path"]) for e in (errs or []) if e.get("path") is not None]
    n_bad = n_good = 0
    for path, r in h.raw.items():
        reach, v = get_at(data, list(path)) if data is not None else (False, None)
        coord_t = None
        if r[0] != "none" and reach and v is None:
            if not any(ep[: len(path)] == path for ep in err_paths):
                raise Violation(spec, "position %r is null although its resolver returned %r and no error is at or below it%s" % (list(path), r, ctx), tag="unexplained_null")
        if reach and v is not None:
            n_good += 1
    return h, n_good


def case(c, stats):
    schema = gen_schema(c)
    kw = {"coerce_list_concurrently": c.maybe(50), "coerce_parent_concurrently": c.maybe(50)}
    plan = {"default_fields": [], "tr_field": [], "tr_type": [], "engine_kwargs": kw, "inherit_parent_concurrency": True}
    if c.maybe(50):  # harness type resolvers with adversarial answers (AdvHarness._answer)
        abstract = [n for n, d in schema["types"].items() if d["kind"] in ("INTERFACE", "UNION")]
        plan["tr_type"] = [a for a in abstract if c.maybe(50)]
        plan["tr_engine"] = c.maybe(40)
        for tn, td in schema["types"].items():
            if td["kind"] == "OBJECT":
                for fn, fd in td["fields"].items():
                    if named(ty(fd["type"])) in abstract and c.maybe(30):
                        plan["tr_field"].append("%s.%s" % (tn, fn))
    if c.maybe(40):  # per-field concurrency overrides: sequentially and concurrently completed siblings side by side
        plan["concurrency"] = {}
        for tn, td in schema["types"].items():
            if td["kind"] == "OBJECT":
                for fn in td["fields"]:
                    if c.maybe(35):
                        plan["concurrency"]["%s.%s" % (tn, fn)] = {"list": c.choice([None, True, False]), "parent": c.choice([None, True, False])}
    clean_registry()
    h = AdvHarness(schema, plan)
    run_async(h.build(**kw))
    for _ in range(REQUESTS_PER_ENGINE):
        spec, gstats = c01.build_request(c, schema, plan, {"max_nodes": 20})
        _, n_good = check(spec, c, h)
        # classify
        ill = 0
        kinds = set()
        ex = Executor(schema, spec["doc"], None)
        for key, r in spec["returns"].items():
            kinds.add(("type_answer:" if key.startswith("T:") else "ret:") + r[0])
        ill = sum(1 for r in spec["returns"].values() if r[0] in ("bytes", "tuple", "set", "gen", "decimal", "fraction", "exc", "excobj", "exccls", "complex", "named_obj", "pyenum", "baseexc") or (r[0] == "float" and r[1] in ("nan", "inf", "-inf")))
        nontrivial = ill >= 1 and n_good >= 1
        stats.case({"schema": schema, "doc": spec["doc"], "returns": spec["returns"], "v": spec["variables"]}, nontrivial, sorted(kinds),
                   {"query": print_document(spec["doc"]).text, "returns": spec["returns"]})


def run_worker(seed, tier, index, nworkers):
    stats = core.Stats(max_samples=3)
    scale = float(os.environ.get("TFV_SCALE", "1"))
    n = max(1, int(CASES[tier] * scale / nworkers / REQUESTS_PER_ENGINE))
    v = core.run_property(case, seed, n, stats, budget_s=BUDGET[tier], shrink=True)
    out = stats.export()
    out["violations"] = [{"spec": core.jsonable(v.spec), "message": v.message}] if v else []
    return out


def replay(spec):
    check(spec, None, None)


TECHNIQUE = "property-based testing (Hypothesis): adversarial resolver outputs drawn during execution; oracle = schema/selection conformance predicate over the response"
LEVEL_TEXT = (
    "Generated-input search where the *resolver outputs* are the adversarial input: each call returns either a well-typed value or "
    "something from a hostile universe of Python values. No expected value is computed; a validity predicate checks that whatever "
    "execute returns is JSON-serialisable and conforms to the selection and the schema, and that nulls are explained by errors."
)
LEVEL_NOTE = "trusts: the conformance predicate (tfv/props/c03.py) and the collected-keys computation of the reference (tfv/ref.py)"
