"""C08 - results do not depend on resolver scheduling or concurrency settings."""
import copy
import os

from tfv import core
from tfv.core import Violation, run_async
from tfv.data import RefProvider, Tree
from tfv.model import print_document
from tfv.props import c01, c02
from tfv.ref import Executor
from tfv.sched import Deadlock, Sched, explore

from tartiflette.resolver.default import gather_arguments_coercer, sync_arguments_coercer

ID = "C08"
LEVEL = "exploration"
WORKERS = {"quick": 8, "thorough": 16}
CASES = {"quick": 1200, "thorough": 30000}  # schemas; each: up to 3 engine configurations x 2 requests x schedules
BUDGET = {"quick": 50, "thorough": 560}
SCHEDULES = {"quick": 60, "thorough": 1500}
RULE = (
    "case = generated request (C01/C02 generators, bounded: <= 10 gated awaitables, lists <= 3, optional fault: one position, or 2-4 positions failing with one shared exception object) x engine "
    "configurations drawn from the 2x2x2 options (coerce_list_concurrently, coerce_parent_concurrently, gather/sync arguments coercer) "
    "plus per-resolver list_/parent_concurrently overrides and gated argument/input hooks x schedules: depth-first enumeration of every "
    "gate-release order incl. bursts (exhaustive when it fits the per-request budget, otherwise the budget plus Hypothesis-drawn scripts). "
    "Oracle = identical data for all schedules and configurations, equal to the reference; identical set of error paths explaining the "
    "nulls; scheduler log: every started awaitable finished before execute returned, no resolver started twice for one (path), no task "
    "left, no deadlock. Distinct = SHA-1 of (request, configuration, schedule); non-trivial = the schedule differs from FIFO and the "
    "request had >= 2 gates pending at once (nested concurrency)."
)
ASSUMPTIONS = c01.ASSUMPTIONS + ["CPython's default event loop; suspension only at harness gates (the engine itself never waits on I/O or timers)"]
DOC_OPTS = {"max_nodes": 7, "max_frags": 2, "max_sels": 3, "max_depth": 3, "max_ops": 1}
ARG_COERCERS = {"gather": gather_arguments_coercer, "sync": sync_arguments_coercer}


def gen_config(c, schema, first):
    if first:
        return {"list": None, "parent": None, "args": None, "overrides": {}}
    cfg = {"list": c.choice([True, False]), "parent": c.choice([True, False]), "args": c.choice(["gather", "sync"]), "overrides": {}}
    for tn, td in schema["types"].items():
        if td["kind"] != "OBJECT":
            continue
        for fn in td["fields"]:
            if c.maybe(25):
                cfg["overrides"]["%s.%s" % (tn, fn)] = {"list": c.choice([None, True, False]), "parent": c.choice([None, True, False])}
    return cfg


def engine_kwargs(cfg):
    kw = {}
    if cfg["list"] is not None:
        kw["coerce_list_concurrently"] = cfg["list"]
    if cfg["parent"] is not None:
        kw["coerce_parent_concurrently"] = cfg["parent"]
    if cfg["args"]:
        kw["custom_default_arguments_coercer"] = ARG_COERCERS[cfg["args"]]
    return kw


def plan_for(base_plan, cfg):
    plan = dict(base_plan)
    plan["default_fields"] = []
    plan["custom_default_resolver"] = False
    plan["tr_engine"] = True
    plan["gate_hooks"] = True
    plan["concurrency"] = cfg["overrides"]
    plan["inherit_parent_concurrency"] = True  # Resolver(parent_concurrently=None) inherits the engine option
    return plan


def run_schedules(spec, h, budget, scripts, stats=None, extra=None, nontrivial_fn=None):
    """explore schedules of one request on one engine; raises Violation"""
    schema = spec["schema"]
    faults = [(tuple(k), c02.fault_from_json(f)) for k, f in spec.get("faults") or ()]
    rtree = Tree(schema, None, copy.deepcopy(spec["tree"]))
    c02.install(rtree, faults, for_reference=True)
    ex = Executor(schema, spec["doc"], RefProvider(rtree))
    op = ex.get_operation(spec["op"])
    root = schema["roots"][op["type"]]
    variables = c02.effective_variables(spec)
    expected = ex.execute(spec["op"], variables, root_value=rtree.root(root))
    ref_errors = ex.final_errors()
    ref_paths = {}
    for e in ref_errors:
        ref_paths.setdefault(tuple(e["path"]), 0)
        ref_paths[tuple(e["path"])] += 1
    printed = print_document(spec["doc"])
    seen = {"orders": set(), "error_sets": set(), "max_pending": 0, "n": 0}

    def make(s):
        etree = Tree(schema, None, copy.deepcopy(spec["tree"]))
        c02.install(etree, faults)
        h.set_tree(etree)
        h.gate = s.gate
        return h.engine.execute(printed.text, operation_name=spec["op"], context=h.ctx_token, variables=copy.deepcopy(variables), initial_value=h.root_value(root))

    def on_result(s, resp, left, script):
        ctx = "\nconfig=%r\nschedule=%r released=%r\nquery:\n%s\nvariables=%r faults=%r\nresponse=%s\nreference=%s" % (
            spec.get("config"), script, s.released, printed.text, spec["variables"], spec.get("faults"), str(resp)[:1200], c01.ordered(expected))
        sspec = dict(spec, schedule=list(script))
        if c01.ordered(resp.get("data")) != c01.ordered(expected):
            raise Violation(sspec, "data depends on the schedule/configuration (differs from the reference)" + ctx, tag="data")
        errs = resp.get("errors") or []
        got = {}
        for e in errs:
            p = tuple(e.get("path") or ())
            got[p] = got.get(p, 0) + 1
            if p not in ref_paths or got[p] > ref_paths[p]:
                raise Violation(sspec, "error at %r does not correspond to a failure of this request" % (list(p),) + ctx, tag="errors")
        targets = {}
        for e in ref_errors:
            tk = None if e["target"] is None else tuple(e["target"])
            targets.setdefault(tk, []).append(tuple(e["path"]))
        for tk, paths in targets.items():
            if tk is None or c02.visible(expected, list(tk)):
                if not any(p in got for p in paths):
                    raise Violation(sspec, "nulled position %r not explained under this schedule" % (tk,) + ctx, tag="unexplained")
        if s.pending:
            raise Violation(sspec, "execute returned while %d started awaitables were still pending: %r" % (len(s.pending), [l for l, _ in s.pending]) + ctx, tag="pending")
        unfinished = s.unfinished()
        if unfinished:
            raise Violation(sspec, "awaitables started but not finished when execute returned: %r" % (unfinished,) + ctx, tag="unfinished")
        if left:
            raise Violation(sspec, "tasks alive after execute returned: %r" % (left,) + ctx, tag="tasks")
        starts = [l for k, l in s.log if k == "start" and l[0] == "resolver"]
        if len(starts) != len(set(starts)):
            raise Violation(sspec, "a resolver was started twice: %r" % (sorted(x for x in starts if starts.count(x) > 1)[:3],) + ctx, tag="twice")
        if extra is not None:
            extra(s, resp, sspec, ctx, ex, expected)
        seen["orders"].add(tuple(s.released))
        seen["max_pending"] = max(seen["max_pending"], s.max_pending)
        seen["n"] += 1
        if stats is not None:
            nontrivial = any(k != 0 for _, k in s.trace) and s.max_pending >= 2
            if nontrivial_fn is not None:
                nontrivial = nontrivial_fn(s)
            stats.case({"d": spec["doc"], "s": schema["types"], "cfg": spec.get("config"), "f": spec.get("faults"), "sched": [k for _, k in s.trace], "v": spec["variables"]},
                       nontrivial, ["max_pending:%d" % min(s.max_pending, 6)],
                       {"query": printed.text, "config": spec.get("config"), "faults": spec.get("faults"), "released": [list(map(str, l)) for l in s.released]})

    try:
        runs, exhaustive = run_async(explore(make, budget, on_result, True, scripts))
    except Deadlock as e:
        raise Violation(spec, "execute does not terminate under some schedule: %s\nquery:\n%s" % (e, printed.text), tag="deadlock")
    finally:
        h.gate = None
    return runs, exhaustive, seen


def case(c, stats):
    tier = os.environ.get("VERIF_TIER_INTERNAL", "quick")
    schema, base_plan = c01.build_schema(c, {"max_objects": 3, "max_interfaces": 1, "max_unions": 1})
    nconf = c.int(2, 3)
    configs = [gen_config(c, schema, i == 0) for i in range(nconf)]
    # requests
    reqs = []
    for _ in range(2):
        plan0 = plan_for(base_plan, configs[0])
        spec, _ = c01.build_request(c, schema, plan0, DOC_OPTS)
        tree, ex, expected, root = c01.reference(spec, c)
        if len(ex.calls) > 10:
            continue
        spec["faults"] = []
        if c.maybe(40):
            sites = c02.fault_sites(schema, ex)
            if sites:
                lab, key, f, _ = c02.pick_fault(c, sites)
                spec["faults"] = [[list(key), c02.fault_to_json(f)]]
                if c.maybe(35):
                    # several positions failing with the same exception object: which of them completes first depends on the schedule
                    fs = c02.shared_plain_set(c, sites)
                    if fs:
                        spec["faults"] = [[list(k), c02.fault_to_json(f)] for _, k, f, _ in fs]
        reqs.append(spec)
    for cfg in configs:
        plan = plan_for(base_plan, cfg)
        h = run_async(c01.make_harness(schema, plan, engine_kwargs(cfg)))
        for spec in reqs:
            cspec = dict(spec, plan=plan, config=cfg)
            scripts = [[c.int(0, 7) for _ in range(c.int(1, 12))] for _ in range(4)]
            runs, exhaustive, seen = run_schedules(cspec, h, SCHEDULES[tier], scripts, stats)
            k = "exhaustive_requests" if exhaustive else "capped_requests"
            stats.hist[k] = stats.hist.get(k, 0) + 1
            stats.hist["cfg:list=%s,parent=%s,args=%s" % (cfg["list"], cfg["parent"], cfg["args"])] = stats.hist.get("cfg:list=%s,parent=%s,args=%s" % (cfg["list"], cfg["parent"], cfg["args"]), 0) + 1


def run_worker(seed, tier, index, nworkers):
    os.environ["VERIF_TIER_INTERNAL"] = tier
    stats = core.Stats(max_samples=3)
    scale = float(os.environ.get("TFV_SCALE", "1"))
    n = max(1, int(CASES[tier] * scale / nworkers))
    v = core.run_property(case, seed, n, stats, budget_s=BUDGET[tier], shrink=True)
    out = stats.export()
    out["violations"] = [{"spec": core.jsonable(v.spec), "message": v.message}] if v else []
    return out


def replay(spec):
    cfg = spec["config"]
    h = run_async(c01.make_harness(spec["schema"], spec["plan"], engine_kwargs(cfg)))
    if "schedule" in spec:
        run_schedules(spec, h, 0, [spec["schedule"]])
    else:
        run_schedules(spec, h, 2000, [])


TECHNIQUE = "schedule exploration with a controlled asyncio scheduler (depth-first enumeration of gate-release orders, Hypothesis-generated requests/configurations/scripts); metamorphic oracle = same response under every schedule and concurrency configuration"
LEVEL_TEXT = (
    "The harness owns the schedule: every resolver and argument/input hook parks on a gate and the driver enumerates which gate (or burst) "
    "completes next, exhaustively for small requests. Each generated request is run under several of the 2x2x2 engine configurations "
    "plus per-resolver overrides; every run must give the reference data and a clean scheduler log."
)
LEVEL_NOTE = "trusts: quiescence detection via loop._ready (CPython asyncio), reference executor, gate granularity (engine has no other suspension points)"
