"""C10 - built-in scalars obey their coercion laws."""
import datetime
import json
import math
import os

import hypothesis
from hypothesis import given, strategies as st

from tfv import core
from tfv.core import Violation, run_async
from tfv.impl import clean_registry

from tartiflette import Resolver, create_engine
from tartiflette.constants import UNDEFINED_VALUE
from tartiflette.language.ast import BooleanValueNode, FloatValueNode, IntValueNode, StringValueNode

ID = "C10"
LEVEL = "exploration"
WORKERS = {"quick": 8, "thorough": 16}
CASES = {"quick": 400000, "thorough": 6000000}  # hypothesis-drawn values in total (grid is always complete)
BUDGET = {"quick": 50, "thorough": 540}
RULE = (
    "domain = the scalar implementations attached to a cooked schema, driven directly and through echo fields of Engine.execute; "
    "values = an exhaustive boundary grid (0, +-1, +-2^31, +-2^53, 10^400, each +-1 / +-1ulp, as int, float, numeric string; bools, "
    "NaN, +-inf, denormals, -0.0, blank/unicode/numeric text, containers) x {result, variable-input, literal} directions, plus "
    "Hypothesis-drawn integers, floats (all bit patterns) and text, and literal spellings (1e999, -0.0, 1E+2, 400-digit ints). "
    "Oracle = two-sided laws from the specification (must-accept / must-reject / may-accept-but-equal), literal == variable, "
    "idempotence of output->input->output. Distinct = (scalar, direction, value); non-trivial = the value lies within 1 (or 1 ulp) "
    "of a listed boundary, is non-finite, or is a non-canonical spelling."
    " Law variable_default: a literal written as the default of an unset operation variable = the same literal as an argument = the same JSON value provided for the variable, through execute, for every grid spelling and drawn datetime."
    " Fourth route of that law: the variable inside a list literal (lT(v: [$v]))."
)
ASSUMPTIONS = ["Date/Time/DateTime are exercised only with naive, second-precision values (the statement's 'well-formed')"]
INT_MIN, INT_MAX = -(2 ** 31), 2 ** 31 - 1
MUST, MAY, RAISE = "must", "may", "raise"


def numeric_text(s):
    """finite float denoted by the text, or None (python float() syntax, stripped)"""
    try:
        f = float(s)
    except (ValueError, OverflowError):
        return None
    if not s.strip():
        return None
    return f


def expected_output(name, v):
    """-> (MUST, value) | (MAY, value) | (RAISE,)   MAY = raising or returning exactly `value`;
    value ANY_STR means any str."""
    isbool = isinstance(v, bool)
    isint = isinstance(v, int) and not isbool
    isfloat = isinstance(v, float)
    if name == "Int":
        if isbool:
            return (MAY, int(v))
        if isint:
            return (MUST, v) if INT_MIN <= v <= INT_MAX else (RAISE,)
        if isfloat:
            if math.isfinite(v) and v == math.floor(v) and INT_MIN <= v <= INT_MAX:
                return (MAY, int(v))
            return (RAISE,)
        if isinstance(v, str):
            f = numeric_text(v)
            if f is not None and math.isfinite(f) and f == math.floor(f) and INT_MIN <= f <= INT_MAX:
                return (MAY, int(f))
            return (RAISE,)
        return (RAISE,)
    if name == "Float":
        if isbool:
            return (MAY, float(v))
        if isint:
            try:
                return (MUST, float(v))
            except OverflowError:
                return (RAISE,)
        if isfloat:
            return (MUST, v) if math.isfinite(v) else (RAISE,)
        if isinstance(v, str):
            f = numeric_text(v)
            if f is not None and math.isfinite(f):
                return (MAY, f)
            return (RAISE,)
        return (RAISE,)
    if name == "String":
        if isinstance(v, str):
            return (MUST, v)
        return (MAY, ANY_STR)
    if name == "ID":
        if isinstance(v, str):
            return (MUST, v)
        if isint:
            return (MUST, str(v))
        if isfloat and math.isfinite(v) and v == math.floor(v):
            return (MAY, str(int(v)))
        return (MAY, ANY_STR)
    if name == "Boolean":
        if isbool:
            return (MUST, v)
        if isint or isfloat:
            return (MAY, bool(v)) if (isint or math.isfinite(v)) else (RAISE,)
        return (RAISE,)
    raise AssertionError(name)


class _AnyStr:
    def __repr__(self):
        return "<any str>"


ANY_STR = _AnyStr()


def expected_input(name, v):
    isbool = isinstance(v, bool)
    isint = isinstance(v, int) and not isbool
    isfloat = isinstance(v, float)
    if name == "Int":
        if isint:
            return (MUST, v) if INT_MIN <= v <= INT_MAX else (RAISE,)
        if isfloat and math.isfinite(v) and v == math.floor(v) and INT_MIN <= v <= INT_MAX:
            return (MAY, int(v))
        return (RAISE,)
    if name == "Float":
        if isint or isfloat:
            try:
                f = float(v)
            except OverflowError:
                return (RAISE,)
            return (MUST, f) if math.isfinite(f) else (RAISE,)
        return (RAISE,)
    if name == "String":
        return (MUST, v) if isinstance(v, str) else (RAISE,)
    if name == "Boolean":
        return (MUST, v) if isbool else (RAISE,)
    if name == "ID":
        if isinstance(v, str):
            return (MUST, v)
        if isint:
            return (MUST, str(v))
        if isfloat and math.isfinite(v) and v == math.floor(v):
            return (MAY, str(int(v)))
        return (RAISE,)
    raise AssertionError(name)


WIRE = {"Int": int, "Float": float, "String": str, "ID": str, "Boolean": bool}


def same(a, b):
    if b is ANY_STR:
        return isinstance(a, str)
    if type(a) is not type(b):
        return False
    if isinstance(a, float) and isinstance(b, float):
        return a == b or (a != a and b != b)
    return a == b


def judge(exp, call, what, spec):
    try:
        out = call()
        raised = None
    except Exception as e:  # noqa
        out, raised = None, e
    if out is UNDEFINED_VALUE:
        out, raised = None, "UNDEFINED_VALUE"
    if exp[0] == RAISE:
        if raised is None:
            raise Violation(spec, "%s: accepted and produced %r (%s) where the specification requires a failure" % (what, out, type(out).__name__), tag="accepts_invalid")
    elif exp[0] == MUST:
        if raised is not None:
            raise Violation(spec, "%s: refused (%r) a value the specification requires to be accepted; expected %r" % (what, raised, exp[1]), tag="rejects_valid")
        if not same(out, exp[1]):
            raise Violation(spec, "%s: produced %r (%s), expected %r (%s)" % (what, out, type(out).__name__, exp[1], type(exp[1]).__name__), tag="wrong_value")
    else:
        if raised is None and not same(out, exp[1]):
            raise Violation(spec, "%s: produced %r (%s); if accepted it must be %r" % (what, out, type(out).__name__, exp[1]), tag="wrong_value")
    return out, raised


# ------------------------------------------------------------------ value grids


def grid_values():
    vals = []
    bounds = [0, 1, 2 ** 31, 2 ** 31 - 1, 2 ** 53, 2 ** 63, 2 ** 64, 10 ** 400, 255, 2 ** 24]
    for b in bounds:
        for d in (-1, 0, 1):
            for sgn in (1, -1):
                n = sgn * (b + d)
                vals.append(n)
                try:
                    f = float(n)
                    vals.append(f)
                    vals.append(math.nextafter(f, math.inf))
                    vals.append(math.nextafter(f, -math.inf))
                    vals.append(f + 0.5)
                except OverflowError:
                    pass
                vals.append(str(n))
                vals.append("%d.0" % n if abs(n) < 10 ** 20 else str(n))
                vals.append("%d.5" % n if abs(n) < 10 ** 20 else str(n))
    vals += [True, False, None, float("nan"), float("inf"), float("-inf"), -0.0, 5e-324, -5e-324, 1e308, -1e308, 1.7976931348623157e308, 0.1, 1.5, -1.5]
    vals += ["", " ", "abc", "1e3", "1E3", " 1", "1 ", "0x10", "1_0", "nan", "inf", "-inf", "Infinity", "true", "false", "null", "١٢٣", "é", "1e999", "-0", "+1", "1.", ".5", "\n", "2147483647", "2147483648", "-2147483649"]
    vals += [[], [1], {}, {"a": 1}, (1,), b"1", 1 + 2j]
    return vals


LITERALS = {
    "int": ["0", "-0", "1", "-1", "7", "2147483647", "2147483648", "-2147483648", "-2147483649", "9007199254740993", "1" + "0" * 400, "-" + "9" * 400],
    "float": ["0.0", "-0.0", "1.0", "1.5", "1e3", "1E+2", "1e-2", "1e999", "-1e999", "1e-400", "0.1", "1e308", "1.7976931348623157e308", "1.7976931348623159e308", "2147483648.0", "5.0", "123456789.123456789"],
    "string": ["", " ", "abc", "1", "1.5", "true", "é✓", "a\"b", "2020-01-01", "😀"],
    "bool": [True, False],
}
NATURAL = {"Int": ["int"], "Float": ["int", "float"], "String": ["string"], "ID": ["string", "int"], "Boolean": ["bool"]}
NODE = {
    "int": lambda s: IntValueNode(value=s, location=None),
    "float": lambda s: FloatValueNode(value=s, location=None),
    "string": lambda s: StringValueNode(value=s, location=None),
    "bool": lambda b: BooleanValueNode(value=b, location=None),
}


def json_of(kind, spelling):
    if kind in ("int", "float"):
        return json.loads(spelling)
    return spelling


BOUNDARIES = [0, 1, 2 ** 31, 2 ** 31 - 1, 2 ** 53, 10 ** 400, 2 ** 63, 2 ** 64]


def near_boundary(v):
    if isinstance(v, bool) or v is None:
        return True
    if isinstance(v, str):
        f = numeric_text(v)
        if f is None:
            return not v.isalnum()
        return v != repr(int(f)) if math.isfinite(f) and f == math.floor(f) else True
    if isinstance(v, float):
        if not math.isfinite(v) or v == 0:
            return True
        return any(abs(abs(v) - b) <= max(1.0, abs(v) * 2 ** -50) for b in BOUNDARIES if b < 1e300)
    if isinstance(v, int):
        return any(abs(abs(v) - b) <= 1 for b in BOUNDARIES)
    return False


# ------------------------------------------------------------------ engine fixture

SDL = """
type Query {
  oInt: Int oFloat: Float oString: String oID: ID oBoolean: Boolean
  oDate: Date oTime: Time oDateTime: DateTime
  iInt(v: Int): String iFloat(v: Float): String iString(v: String): String iID(v: ID): String iBoolean(v: Boolean): String
  iDate(v: Date): String iTime(v: Time): String iDateTime(v: DateTime): String
  lInt(v: [Int]): String lFloat(v: [Float]): String lString(v: [String]): String lID(v: [ID]): String lBoolean(v: [Boolean]): String
  lDate(v: [Date]): String lTime(v: [Time]): String lDateTime(v: [DateTime]): String
}
"""
SCALARS = ["Int", "Float", "String", "ID", "Boolean"]
_fx = {}


def fixture():
    if "engine" in _fx:
        return _fx
    clean_registry()
    name = "c10"
    box = {}

    def out_resolver(s):
        async def r(parent, args, ctx, info):
            return ctx["value"]
        return r

    def in_resolver(s):
        async def r(parent, args, ctx, info):
            v = args.get("v", "ABSENT")
            ctx["got"] = v
            return "%s:%r" % (type(v).__name__, v)
        return r

    for s in SCALARS + ["Date", "Time", "DateTime"]:
        Resolver("Query.o" + s, schema_name=name)(out_resolver(s))
        Resolver("Query.i" + s, schema_name=name)(in_resolver(s))
        Resolver("Query.l" + s, schema_name=name)(in_resolver(s))
    extra = []
    for field, sname, kind, sp, text in sdl_default_fields():
        extra.append("  %s(v: %s = %s): String" % (field, sname, text))
        Resolver("Query." + field, schema_name=name)(in_resolver(sname))
    engine = run_async(create_engine(SDL + "extend type Query {\n%s\n}\n" % "\n".join(extra), schema_name=name))
    _fx["engine"] = engine
    _fx["scalars"] = {s: engine._schema.find_scalar(s) for s in SCALARS + ["Date", "Time", "DateTime"]}
    return _fx


def enc(v):
    return core.jsonable(v) if not isinstance(v, (tuple, complex, bytes)) else {"$repr": repr(v)}


def dec(j):
    if isinstance(j, dict) and "$float" in j:
        return float(j["$float"])
    if isinstance(j, dict) and "$repr" in j:
        return eval(j["$repr"])  # only produced by enc() above
    if isinstance(j, list):
        return [dec(x) for x in j]
    if isinstance(j, dict):
        return {k: dec(v) for k, v in j.items()}
    return j


# ------------------------------------------------------------------ laws


def law_output(name, v, via_engine=False):
    fx = fixture()
    sc = fx["scalars"][name]
    spec = {"law": "output", "scalar": name, "value": enc(v), "engine": via_engine}
    if v is None:
        return
    exp = expected_output(name, v)
    out, raised = judge(exp, lambda: sc.coerce_output(v), "%s result coercion of %r" % (name, v), spec)
    if raised is None:
        # idempotence: the produced wire value fed back as input gives the same value
        spec2 = dict(spec, law="idempotence")
        try:
            back = sc.coerce_input(out)
            again = sc.coerce_output(back)
        except Exception as e:  # noqa
            raise Violation(spec2, "%s: produced result %r is not accepted back as input (%r)" % (name, out, e), tag="idempotence")
        if not same(again, out):
            raise Violation(spec2, "%s: output %r -> input %r -> output %r is not idempotent" % (name, out, back, again), tag="idempotence")
    if via_engine:
        ctx = {"value": v}
        resp = run_async(fx["engine"].execute("{ o%s }" % name, context=ctx))
        got = resp.get("data", {}).get("o" + name) if resp.get("data") else None
        if raised is None:
            if "errors" in resp or not same(got, out):
                raise Violation(spec, "%s via execute: scalar gives %r but the response is %r" % (name, out, resp), tag="engine_mismatch")
        elif "errors" not in resp or got is not None:
            raise Violation(spec, "%s via execute: scalar refuses %r but the response is %r" % (name, v, resp), tag="engine_mismatch")


def law_input(name, v, via_engine=False):
    fx = fixture()
    sc = fx["scalars"][name]
    spec = {"law": "input", "scalar": name, "value": enc(v), "engine": via_engine}
    if v is None:
        return
    exp = expected_input(name, v)
    out, raised = judge(exp, lambda: sc.coerce_input(v), "%s variable coercion of %r" % (name, v), spec)
    if via_engine:
        try:
            json.dumps(v, allow_nan=False)
        except (TypeError, ValueError):
            return
        ctx = {}
        resp = run_async(fx["engine"].execute("query($v: %s) { i%s(v: $v) }" % (name, name), context=ctx, variables={"v": v}))
        if raised is None:
            if "errors" in resp or not same(ctx.get("got"), out):
                raise Violation(spec, "%s via execute: scalar gives %r but resolver got %r / response %r" % (name, out, ctx.get("got"), resp), tag="engine_mismatch")
        elif "errors" not in resp or resp.get("data") is not None or "got" in ctx:
            raise Violation(spec, "%s via execute: scalar refuses %r but the request was not refused: %r" % (name, v, resp), tag="engine_mismatch")


def law_literal(name, kind, spelling, via_engine=False):
    """literal of a natural kind == variable carrying the same JSON value"""
    fx = fixture()
    sc = fx["scalars"][name]
    spec = {"law": "literal", "scalar": name, "kind": kind, "spelling": spelling, "engine": via_engine}
    try:
        lit = sc.parse_literal(NODE[kind](spelling))
    except Exception as e:  # noqa
        raise Violation(spec, "%s.parse_literal(%s %r) raised %r" % (name, kind, spelling, e), tag="literal_raises")
    jv = json_of(kind, spelling)
    try:
        var = sc.coerce_input(jv)
        vraised = None
    except Exception as e:  # noqa
        var, vraised = None, e
    exp = expected_input(name, jv)
    lit_ok = lit is not UNDEFINED_VALUE
    if exp[0] == RAISE and lit_ok:
        raise Violation(spec, "%s literal %s is accepted as %r although the same JSON value %r must be refused" % (name, spelling, lit, jv), tag="literal_accepts_invalid")
    if exp[0] == MUST and not lit_ok:
        raise Violation(spec, "%s literal %s is refused although the same JSON value %r must be accepted" % (name, spelling, jv), tag="literal_rejects_valid")
    if name == "ID" and kind == "int" and spelling.lstrip("-") == "0" and spelling != "0":
        # `-0` is the only non-canonical integer spelling GraphQL allows; an ID keeps the digits as written
        # (as graphql-js does) while JSON -0 arrives as 0.  Not a different value kind: excluded, see DESIGN C10.
        return
    if lit_ok and vraised is None and not same(lit, var):
        raise Violation(spec, "%s literal %s gives %r (%s) but variable %r gives %r (%s)" % (name, spelling, lit, type(lit).__name__, jv, var, type(var).__name__), tag="literal_ne_variable")
    if lit_ok != (vraised is None) and exp[0] != MAY:
        raise Violation(spec, "%s literal %s accepted=%s but variable %r accepted=%s" % (name, spelling, lit_ok, jv, vraised is None), tag="literal_ne_variable")
    if via_engine:
        text = spelling if kind in ("int", "float") else (json.dumps(spelling) if kind == "string" else ("true" if spelling else "false"))
        ctx = {}
        resp = run_async(fx["engine"].execute("{ i%s(v: %s) }" % (name, text), context=ctx))
        if lit_ok:
            if "errors" in resp or not same(ctx.get("got"), lit):
                raise Violation(spec, "%s literal %s via execute: resolver got %r, scalar says %r; response %r" % (name, text, ctx.get("got"), lit, resp), tag="engine_mismatch")
        elif "errors" not in resp or "got" in ctx:
            raise Violation(spec, "%s literal %s via execute: should be refused; response %r" % (name, text, resp), tag="engine_mismatch")


def law_variable_default(name, text, jv, spec):
    """a literal written as the default of an operation variable that the request leaves unset = the same literal as an
    argument = the same JSON value provided for the variable (all three through execute)"""
    fx = fixture()
    got = {}
    for how, q, variables in (("literal", "{ i%s(v: %s) }" % (name, text), None), ("variable", "query($v: %s) { i%s(v: $v) }" % (name, name), {"v": jv}),
                              ("variable default", "query($v: %s = %s) { i%s(v: $v) }" % (name, text, name), None),
                              ("variable inside a list literal", "query($v: %s) { l%s(v: [$v]) }" % (name, name), {"v": jv})):
        ctx = {}
        resp = run_async(fx["engine"].execute(q, context=ctx, variables=variables))
        if "errors" in resp or "got" not in ctx:
            raise Violation(spec, "%s %s supplied as %s is refused: %r (query %s)" % (name, text, how, resp, q), tag="variable_default")
        got[how] = ctx["got"]
    nested = got["variable inside a list literal"]
    if not (isinstance(nested, list) and len(nested) == 1 and same(nested[0], got["literal"])):
        raise Violation(spec, "%s %s: inside a list literal the variable delivers %r, as a literal %r" % (name, text, nested, got["literal"]), tag="variable_default")
    if not (same(got["literal"], got["variable"]) and same(got["literal"], got["variable default"])):
        raise Violation(spec, "%s %s: the resolver receives different values by route: %r" % (name, text, got), tag="variable_default")


def law_datetime(name, dt):
    fx = fixture()
    sc = fx["scalars"][name]
    spec = {"law": "datetime", "scalar": name, "value": dt.isoformat()}
    law_variable_default(name, json.dumps(sc.coerce_output(dt)), sc.coerce_output(dt), spec)
    try:
        out = sc.coerce_output(dt)
        back = sc.coerce_input(out)
        again = sc.coerce_output(back)
        lit = sc.parse_literal(StringValueNode(value=out, location=None))
    except Exception as e:  # noqa
        raise Violation(spec, "%s round trip of %r raised %r" % (name, dt, e), tag="datetime")
    if not isinstance(out, str) or again != out or lit != back:
        raise Violation(spec, "%s: %r -> %r -> %r -> %r ; literal %r" % (name, dt, out, back, again, lit), tag="datetime")
    want = {"Date": dt.date().isoformat(), "Time": dt.time().isoformat(), "DateTime": dt.isoformat()}[name]
    if out != want:
        raise Violation(spec, "%s: %r serialised as %r, expected %r" % (name, dt, out, want), tag="datetime")


# ------------------------------------------------------------------ driver


DT_GRID = [datetime.datetime(1, 1, 1), datetime.datetime(999, 12, 31, 23, 59, 59), datetime.datetime(1000, 1, 1), datetime.datetime(1969, 12, 31, 23, 59, 59),
           datetime.datetime(1970, 1, 1), datetime.datetime(2000, 2, 29, 12, 0, 0), datetime.datetime(9999, 12, 31, 23, 59, 59), datetime.datetime(33, 4, 3, 15, 0, 9)]


def sdl_default_fields():
    """one echo field per (scalar, natural literal spelling that must be accepted): arg default written in the SDL"""
    out = []
    k = 0
    for name in SCALARS:
        for kind in NATURAL[name]:
            for sp in LITERALS[kind]:
                jv = json_of(kind, sp)
                if expected_input(name, jv)[0] != MUST:
                    continue
                if name == "ID" and kind == "int" and sp.lstrip("-") == "0" and sp != "0":
                    continue
                text = sp if kind in ("int", "float") else (json.dumps(sp, ensure_ascii=False) if kind == "string" else ("true" if sp else "false"))
                out.append(("d%d" % k, name, kind, sp, text))
                k += 1
    return out


def law_sdl_default(field, name, kind, spelling):
    """an argument default written in the SDL = the same literal in a query = the same JSON value in a variable"""
    fx = fixture()
    spec = {"law": "sdl_default", "scalar": name, "kind": kind, "spelling": spelling, "field": field}
    try:
        want = fx["scalars"][name].coerce_input(json_of(kind, spelling))
    except Exception as e:  # noqa - only values the input rules require to be accepted get here (sdl_default_fields)
        raise Violation(spec, "%s must accept the %s %r as a variable value but raised %r" % (name, kind, json_of(kind, spelling), e), tag="sdl_default")
    ctx = {}
    resp = run_async(fx["engine"].execute("{ %s }" % field, context=ctx))
    if "errors" in resp or not same(ctx.get("got"), want):
        raise Violation(spec, "%s default %s written in the SDL: resolver got %r (%s), the variable/literal route gives %r (%s); response %r" % (
            name, spelling, ctx.get("got"), type(ctx.get("got")).__name__, want, type(want).__name__, resp), tag="sdl_default")


def run_grid(stats, index, nworkers):
    vals = grid_values()
    i = 0
    for field, name, kind, sp, text in sdl_default_fields():
        i += 1
        if i % nworkers != index:
            continue
        law_sdl_default(field, name, kind, sp)
        law_variable_default(name, text, json_of(kind, sp), {"law": "variable_default", "scalar": name, "kind": kind, "spelling": sp})
        stats.case({"s": name, "d": "sdl_default", "k": kind, "v": sp}, True, ["grid:sdl_default:" + name], {"scalar": name, "direction": "sdl_default", "spelling": sp})
    for name in ("Date", "Time", "DateTime"):
        for dt in DT_GRID:
            i += 1
            if i % nworkers != index:
                continue
            d2 = dt.replace(year=1900, month=1, day=1) if name == "Time" else (dt.replace(hour=0, minute=0, second=0) if name == "Date" else dt)
            law_datetime(name, d2)
            stats.case({"s": name, "d": "datetime", "v": d2.isoformat()}, True, ["grid:datetime:" + name])
    for name in SCALARS:
        for v in vals:
            for direction in ("output", "input"):
                i += 1
                if i % nworkers != index:
                    continue
                (law_output if direction == "output" else law_input)(name, v, via_engine=True)
                stats.case({"s": name, "d": direction, "v": enc(v)}, near_boundary(v), ["grid:" + direction + ":" + name], {"scalar": name, "direction": direction, "value": enc(v)})
        for kind in NATURAL[name]:
            for sp in LITERALS[kind]:
                i += 1
                if i % nworkers != index:
                    continue
                law_literal(name, kind, sp, via_engine=True)
                stats.case({"s": name, "d": "literal", "k": kind, "v": sp}, True, ["grid:literal:" + name], {"scalar": name, "direction": "literal", "kind": kind, "spelling": sp})


def run_worker(seed, tier, index, nworkers):
    stats = core.Stats(max_samples=4)
    scale = float(os.environ.get("TFV_SCALE", "1"))
    viol = None
    try:
        run_grid(stats, index, nworkers)
    except Violation as v:
        viol = v
    n = max(10, int(CASES[tier] * scale / nworkers / 8))
    values = st.one_of(
        st.integers(),
        st.integers(-(2 ** 31) - 3, 2 ** 31 + 3),
        st.floats(allow_nan=True, allow_infinity=True),
        st.floats(-(2.0 ** 31) - 2, 2.0 ** 31 + 2),
        st.text(max_size=6),
        st.text(alphabet="0123456789.eE+-_ xn", max_size=8),
        st.booleans(),
        st.integers(-(2 ** 31) - 3, 2 ** 31 + 3).map(float),
        st.integers(-(2 ** 31) - 3, 2 ** 31 + 3).map(str),
    )

    def mk(law):
        @hypothesis.seed(seed)
        @core.hyp_settings(n)
        @given(st.sampled_from(SCALARS), values)
        def t(name, v):
            law(name, v)
            stats.case({"s": name, "d": law.__name__, "v": enc(v)}, near_boundary(v), ["drawn:" + law.__name__ + ":" + name])
        return t

    int_spell = st.one_of(st.integers().map(str), st.integers(-(2 ** 31) - 3, 2 ** 31 + 3).map(str), st.integers(0, 9).map(lambda d: "-" + "0" * d + "1"))
    float_spell = st.one_of(
        st.floats(allow_nan=False, allow_infinity=False).map(repr),
        st.tuples(st.integers(-999, 999), st.integers(0, 999), st.sampled_from(["", "e", "E"]), st.integers(-400, 400)).map(lambda t: "%d.%d" % (t[0], t[1]) + (t[2] + str(t[3]) if t[2] else "")),
    )

    @hypothesis.seed(seed)
    @core.hyp_settings(n)
    @given(st.sampled_from([("Int", "int"), ("Float", "int"), ("Float", "float"), ("ID", "int")]), int_spell, float_spell)
    def t_lit(sk, isp, fsp):
        name, kind = sk
        sp = isp if kind == "int" else fsp
        if sp.startswith("-0") and len(sp) > 2 and sp[2].isdigit():
            sp = "-" + sp[2:].lstrip("0") or "0"  # leading zeros are not valid GraphQL numbers
        law_literal(name, kind, sp)
        stats.case({"s": name, "d": "literal", "k": kind, "v": sp}, True, ["drawn:literal:" + name])

    @hypothesis.seed(seed)
    @core.hyp_settings(max(10, n // 4))
    @given(st.sampled_from(["Date", "Time", "DateTime"]), st.datetimes(min_value=datetime.datetime(1, 1, 1), max_value=datetime.datetime(9999, 12, 31)).map(lambda d: d.replace(microsecond=0)))
    def t_dt(name, dt):
        if name == "Time":
            dt = dt.replace(year=1900, month=1, day=1)
        if name == "Date":
            dt = dt.replace(hour=0, minute=0, second=0)
        law_datetime(name, dt)
        stats.case({"s": name, "d": "datetime", "v": dt.isoformat()}, dt.second == 0 or dt.year < 1970, ["drawn:datetime:" + name] + (["datetime:year<1000"] if dt.year < 1000 else []))

    for t in (mk(law_output), mk(law_input), t_lit, t_dt):
        if viol is not None:
            break
        try:
            t()
        except Violation as v:
            viol = v
    out = stats.export()
    out["violations"] = [{"spec": core.jsonable(viol.spec), "message": viol.message}] if viol else []
    return out


def replay(spec):
    law = spec["law"]
    if law in ("output", "idempotence"):
        law_output(spec["scalar"], dec(spec["value"]), spec.get("engine", False))
    elif law == "input":
        law_input(spec["scalar"], dec(spec["value"]), spec.get("engine", False))
    elif law == "literal":
        law_literal(spec["scalar"], spec["kind"], spec["spelling"], spec.get("engine", False))
    elif law == "sdl_default":
        law_sdl_default(spec["field"], spec["scalar"], spec["kind"], spec["spelling"])
    elif law == "variable_default":
        kind, sp = spec["kind"], spec["spelling"]
        text = sp if kind in ("int", "float") else (json.dumps(sp, ensure_ascii=False) if kind == "string" else ("true" if sp else "false"))
        law_variable_default(spec["scalar"], text, json_of(kind, sp), spec)
    else:
        law_datetime(spec["scalar"], datetime.datetime.fromisoformat(spec["value"]) if "T" in spec["value"] or "-" in spec["value"] else datetime.datetime.strptime(spec["value"], "%H:%M:%S"))


TECHNIQUE = "property-based testing (Hypothesis) + exhaustive boundary grid: algebraic laws of each scalar (two-sided accept/reject, literal = variable, idempotence)"
LEVEL_TEXT = (
    "A complete boundary grid (every listed boundary +-1 / +-1 ulp in every spelling, every direction, every scalar, both on the "
    "scalar objects and through Engine.execute) plus Hypothesis-drawn integers, floats over all bit patterns, text and literal "
    "spellings, judged against laws derived from the specification's scalar sections."
)
LEVEL_NOTE = "trusts: the law tables expected_output/expected_input (tfv/props/c10.py); borderline conversions the specification allows either way are accepted either way but must preserve the value"
