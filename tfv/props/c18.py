"""C18 - execute always answers with a well-formed GraphQL response."""
import copy
import json
import os
import re

from tfv import core, gqlparse
from tfv.core import Violation, run_async
from tfv.data import Tree
from tfv.impl import Harness, clean_registry
from tfv.model import print_document
from tfv.props import c01, c02

ID = "C18"
LEVEL = "exploration"
WORKERS = {"quick": 8, "thorough": 16}
CASES = {"quick": 24000, "thorough": 600000}
BUDGET = {"quick": 50, "thorough": 560}
REQUESTS_PER_ENGINE = 60
RULE = (
    "case = (query, operation_name, variables, context, error coercer) with query drawn from: random unicode / GraphQL-punctuation text, "
    "str and bytes (also invalid UTF-8 and embedded NUL), token-level mutations of generated valid documents (delete, duplicate, swap, "
    "insert, unbalance), deep nesting (any depth to 3000), and valid documents; operation_name from {None, '', a real name, arbitrary text}; "
    "variables from {None, arbitrary JSON objects}; error coercer from {default, custom async coercer that counts and rewrites}. Oracle = "
    "envelope predicate: execute returns a dict with data; errors only as a non-empty list of dicts with string message, path list|None, "
    "locations of positive line/column inside the query text, extensions only when non-empty; syntax errors (per the front end) and failed "
    "operation selection give data null with zero resolver calls; the custom coercer is awaited once per reported error and its return "
    "values are the errors entries; valid requests in which a resolver raises exceptions with non-text / no arguments or a library error "
    "tagged in place through `.extensions`; refusals for syntax / operation selection carry no `extensions` (rule errors keep theirs) and "
    "no response shows an annotation written into an earlier response; one exception object failing several positions; argument "
    "hooks failing for arguments the request did not write (locations must still lie inside the query text). Distinct = SHA-1 of the request; non-trivial = the query is neither a valid document nor empty (it is "
    "broken text, a mutated document or a selection failure)."
)
ASSUMPTIONS = ["'syntax error' is the stand-in front end's judgement (tfv/gqlparse.py); the real libgraphqlparser is absent from the sandbox (DESIGN 1.1)"]

ALPHABET = list("{}()[]:!$@=.,|&#\"\\ \n\tabcxyzQ_019-+eE") + ["...", "query", "mutation", "fragment", "on", "true", "null", "é", "😀", "\u0000", "﻿", "\r\n", '"""', "\ud800", "\udfff"]
TOKEN_RE = re.compile(r'\.\.\.|"""|"(?:[^"\\\n]|\\.)*"|[A-Za-z_][A-Za-z0-9_]*|-?[0-9]+(?:\.[0-9]+)?|\s+|.', re.S)


def random_text(c):
    n = c.int(0, 24)
    return "".join(c.choice(ALPHABET) for _ in range(n))


def mutate_tokens(c, text):
    toks = TOKEN_RE.findall(text)
    if not toks:
        return text
    for _ in range(c.int(1, 3)):
        k = c.weighted([(3, "delete"), (2, "dup"), (2, "swap"), (2, "insert"), (2, "unbalance"), (1, "truncate")])
        i = c.int(0, len(toks) - 1)
        if k == "delete":
            del toks[i]
        elif k == "dup":
            toks.insert(i, toks[i])
        elif k == "swap" and len(toks) > 1:
            j = c.int(0, len(toks) - 1)
            toks[i], toks[j] = toks[j], toks[i]
        elif k == "insert":
            toks.insert(i, c.choice(ALPHABET))
        elif k == "unbalance":
            toks.insert(i, c.choice(["{", "}", "(", ")", "[", "]", '"']))
        elif k == "truncate":
            toks = toks[:i]
        if not toks:
            break
    return "".join(toks)


def gen_json_obj(c):
    from tfv.props.c04 import gen_json
    return {k: gen_json(c) for k in c.subset(["v0", "v1", "v2", "x", "", "é"], 40)}


class Coercer:
    def __init__(self):
        self.calls = []
        self.returned = []

    async def __call__(self, exception, error):
        self.calls.append((type(exception).__name__, copy.deepcopy(error)))
        out = dict(error)
        out["coerced"] = len(self.calls)
        out["message"] = "[%d] %s" % (len(self.calls), error.get("message"))
        self.returned.append(out)
        return out


def classify_front_end(query):
    """-> ("syntax", msg) | ("doc", ast)"""
    try:
        raw = query if isinstance(query, bytes) else query.encode("utf-8")
    except UnicodeEncodeError:
        return ("syntax", "unencodable")
    nul = raw.find(b"\x00")
    if nul >= 0:
        raw = raw[:nul]  # the C interface takes a NUL-terminated string
    try:
        return ("doc", json.loads(gqlparse.parse_to_json(raw)))
    except gqlparse.GQLSyntaxError as e:
        return ("syntax", str(e))
    except RecursionError:
        return ("syntax", "too deep")
    except UnicodeDecodeError:
        return ("syntax", "utf8")


def selection_fails(ast, operation_name):
    ops = [d for d in ast["definitions"] if d["kind"] == "OperationDefinition"]
    if operation_name == "":
        # the engine reads an empty name as "no name given" (a common leniency towards HTTP clients);
        # the statement only names unknown names and ambiguous anonymous selection, so "" is judged
        # as None when that selects an operation and is otherwise a failure either way
        return len(ops) != 1 and not any(d["name"] and d["name"]["value"] == "" for d in ops)
    if operation_name is None:
        return len(ops) != 1
    return not any(d["name"] and d["name"]["value"] == operation_name for d in ops)


def check_envelope(spec, resp, query_text_for_locations, coercer, calls, front):
    def bad(msg, tag):
        raise Violation(spec, "%s\nquery=%r op=%r variables=%r\nresponse=%s" % (msg, spec["query"], spec["op"], spec["variables"], str(resp)[:1500]), tag=tag)

    if not isinstance(resp, dict) or "data" not in resp:
        bad("response is not a dict with a data entry", "envelope")
    extra = set(resp) - {"data", "errors", "extensions"}
    if extra:
        bad("unexpected top-level keys %r" % (extra,), "envelope")
    if "errors" in resp:
        errs = resp["errors"]
        if not isinstance(errs, list) or not errs:
            bad("errors present but not a non-empty list", "errors_empty")
        lines = query_text_for_locations.split(b"\n")
        for e in errs:
            if not isinstance(e, dict):
                bad("error entry is not a dict: %r" % (e,), "entry")
            if not isinstance(e.get("message"), str):
                bad("error entry without string message: %r" % (e,), "message")
            if "path" not in e or not (e["path"] is None or isinstance(e["path"], list)):
                bad("error entry path is not a list or null: %r" % (e,), "path")
            locs = e.get("locations")
            if not isinstance(locs, list):
                bad("error entry locations is not a list: %r" % (e,), "locations")
            for loc in locs:
                if not (isinstance(loc, dict) and type(loc.get("line")) is int and type(loc.get("column")) is int and loc["line"] >= 1 and loc["column"] >= 1):
                    bad("location is not a pair of positive ints: %r" % (e,), "locations")
                if loc["line"] > len(lines) or loc["column"] > len(lines[loc["line"] - 1]) + 1:
                    bad("location %r lies outside the query text" % (loc,), "locations_outside")
            if "extensions" in e and (not isinstance(e["extensions"], dict) or not e["extensions"]):
                bad("extensions present but empty / not an object: %r" % (e,), "extensions")
    else:
        if resp["data"] is None:
            bad("data is null but no errors are reported", "null_without_errors")
    if "zz_touched_by" in str(resp):
        bad("the response carries an annotation that a caller wrote into an *earlier* response (error objects shared between responses)", "shared_error")
    if front[0] == "syntax" or (front[0] == "doc" and selection_fails(front[1], spec["op"])):
        why = "syntax error" if front[0] == "syntax" else "failed operation selection"
        # nobody sets extensions on these errors; a document that also breaks validation rules is reported by the rules
        # instead, whose entries carry their rule / spec reference
        if coercer is None and any(isinstance(e, dict) and "extensions" in e and not (front[0] == "doc" and "rule" in e["extensions"]) for e in resp.get("errors") or ()):
            bad("%s reported with `extensions` nobody set" % why, "extensions_unset")
        if resp["data"] is not None or "errors" not in resp:
            bad("%s must give data: null with errors" % why, "not_refused")
        if calls:
            bad("%s but resolvers ran: %r" % (why, calls[:3]), "ran")
    if coercer is not None:
        n = len(resp.get("errors") or [])
        if len(coercer.calls) != n:
            bad("custom error coercer awaited %d times for %d reported errors" % (len(coercer.calls), n), "coercer_count")
        if n and resp["errors"] != coercer.returned:
            bad("errors entries are not the coercer's return values: %r" % (coercer.returned,), "coercer_values")
    try:
        json.dumps(resp)
    except (TypeError, ValueError):
        bad("response is not JSON serialisable", "json")


def run_one(spec, h, coercer):
    h.reset_logs()
    q = spec["query"]
    if isinstance(q, dict) and "$bytes" in q:
        q = bytes.fromhex(q["$bytes"])
    if coercer is not None:
        coercer.calls, coercer.returned = [], []
    tree = Tree(spec["schema"], None, copy.deepcopy(spec.get("tree")) if spec.get("tree") else None)
    c02.install(tree, [(tuple(k), c02.fault_from_json(f)) for k, f in spec.get("faults") or ()])
    h.set_tree(tree)
    roots = spec["schema"]["roots"]

    async def go():
        return await h.engine.execute(q, operation_name=spec["op"], context=h.ctx_token, variables=copy.deepcopy(spec["variables"]), initial_value=h.root_value(roots["query"]))

    try:
        resp = run_async(go())
    except BaseException as e:  # noqa
        if isinstance(e, (KeyboardInterrupt, SystemExit)):
            raise
        raise Violation(spec, "execute raised %r\nquery=%r op=%r variables=%r" % (e, spec["query"], spec["op"], spec["variables"]), tag="raised")
    raw = q if isinstance(q, bytes) else q.encode("utf-8", "surrogatepass")
    front = classify_front_end(q)
    check_envelope(spec, resp, raw, coercer, h.calls, front)
    keep = copy.deepcopy(resp)
    core.scribble(resp, "c18")
    return front, keep


def case(c, stats):
    schema, plan = c01.build_schema(c)
    plan["two_step"] = c.maybe(40)
    plan["refuse_unwritten_arguments"] = c.maybe(30)
    coercer = Coercer() if c.maybe(50) else None
    kw = {"error_coercer": coercer} if coercer else {}
    h = run_async(c01.make_harness(schema, plan, kw))
    valid = []
    for _ in range(3):
        spec, _ = c01.build_request(c, schema, plan, {"max_nodes": 10})
        _, ex, _, _ = c01.reference(spec, c)
        spec["fault_keys"] = [list(key) for lab, key, f, _ in c02.fault_sites(schema, ex) if lab == "raise"]
        valid.append(spec)
    for _ in range(REQUESTS_PER_ENGINE):
        kind = c.weighted([(4, "mutated"), (3, "random"), (2, "valid"), (2, "failing"), (1, "deep"), (1, "empty"), (2, "bytes"), (1, "typesystem"), (2, "concat"), (1, "surrogate")])
        base = c.choice(valid)
        text = print_document(base["doc"]).text
        tree = None
        faults = []
        if kind == "mutated":
            q = mutate_tokens(c, text)
        elif kind == "random":
            q = random_text(c)
        elif kind == "valid":
            q = text
            tree = base["tree"]
        elif kind == "failing":
            # a valid request in which a resolver fails the way user code does: odd exception arguments, library errors tagged in place
            q = text
            tree = base["tree"]
            if base["fault_keys"]:
                fk = c.choice(["raise_odd", "raise_odd", "raise_tagged_in_place", "raise", "raise_shared"])
                faults = [[c.choice(base["fault_keys"]), {"kind": fk, "payload": c.int(0, 99) if fk == "raise_odd" else None}]]
                if fk == "raise_shared":  # the same exception object at several positions
                    faults = [[k, {"kind": fk, "payload": None}] for k in c.subset(base["fault_keys"], 60)[:4] or [base["fault_keys"][0]]]
        elif kind == "deep":
            # any depth: the band in which the front end still parses but the engine's own recursion gives up moves with the
            # recursion limit and the stack already in use, so no fixed list of depths is sure to contain it
            depth = c.choice([50, 200, 400, 2000]) if c.maybe(25) else c.weighted([(3, c.int(20, 300)), (4, c.int(300, 1200)), (2, c.int(1200, 3000))])
            which = c.choice(["sel", "list", "obj"])
            if which == "sel":
                q = "{ a " * depth + "}" * depth
            elif which == "list":
                q = "{ a(x: " + "[" * depth + "]" * depth + ") }"
            else:
                q = "{ a(x: " + "{a: " * depth + "1" + "}" * depth + ") }"
        elif kind == "typesystem":
            extra = c.choice(["type ZzT { a: Int }", "scalar ZzS", "schema { query: Query }", "extend type Query { zz: Int }", "directive @zz on FIELD", "enum ZzE { A }", "input ZzI { a: Int }", '"desc" type ZzD { a: Int }'])
            q = (extra + "\n" + text) if c.maybe(50) else (text + "\n" + extra)
        elif kind == "concat":
            # several documents glued together: several anonymous operations, anonymous next to named, clashing names
            parts = [c.choice([text, "{ __typename }", "query { __typename }", "query ZzOther { __typename }", print_document(c.choice(valid)["doc"]).text]) for _ in range(c.int(2, 3))]
            q = "\n".join(parts)
        elif kind == "surrogate":
            i = c.int(0, len(text))
            q = text[:i] + c.choice(['"\ud83d"', "\udc00", '#\ud800\n']) + text[i:]
        elif kind == "empty":
            q = c.choice(["", " ", "\n", "#c", ","])
        else:
            bq = c.choice([text, mutate_tokens(c, text), random_text(c)]).encode("utf-8", "surrogatepass")
            if c.maybe(40):
                i = c.int(0, len(bq))
                bq = bq[:i] + c.choice([b"\xff", b"\xc3", b"\x00", b"\xe2\x82"]) + bq[i:]
            q = {"$bytes": bq.hex()}
        ops = [d.get("name") for d in base["doc"]["defs"] if d["k"] == "op" and d.get("name")]
        op = c.weighted([(5, None), (1, ""), (3, "real"), (1, "Nope"), (1, "é x")])
        if op == "real":
            op = c.choice(ops) if ops else None
        variables = base["variables"] if (kind in ("valid", "failing") and c.maybe(80)) else c.choice([None, {}, gen_json_obj(c)])
        spec = {"schema": schema, "plan": plan, "query": q, "op": op, "variables": variables, "tree": tree, "coercer": coercer is not None, "faults": faults}
        front, resp = run_one(spec, h, coercer)
        cls = "syntax_error" if front[0] == "syntax" else ("selection_fails" if selection_fails(front[1], op) else ("has_errors" if "errors" in resp else "clean"))
        nontrivial = kind in ("mutated", "random", "deep", "bytes", "typesystem", "concat", "surrogate") or cls == "selection_fails"
        stats.case({"q": q, "op": op, "v": variables, "s": schema["types"], "co": coercer is not None}, nontrivial, ["kind:" + kind, "outcome:" + cls, "coercer:" + str(coercer is not None)],
                   {"query": q, "operation_name": op, "variables": variables, "outcome": cls})


def run_worker(seed, tier, index, nworkers):
    stats = core.Stats(max_samples=5)
    scale = float(os.environ.get("TFV_SCALE", "1"))
    n = max(1, int(CASES[tier] * scale / nworkers / REQUESTS_PER_ENGINE))
    v = core.run_property(case, seed, n, stats, budget_s=BUDGET[tier], shrink=True)
    out = stats.export()
    out["violations"] = [{"spec": core.jsonable(v.spec), "message": v.message}] if v else []
    return out


def replay(spec):
    coercer = Coercer() if spec.get("coercer") else None
    kw = {"error_coercer": coercer} if coercer else {}
    h = run_async(c01.make_harness(spec["schema"], spec["plan"], kw))
    run_one(spec, h, coercer)


TECHNIQUE = "fuzzing with Hypothesis-generated text, bytes and token-mutated documents; oracle = response-envelope predicate plus front-end classification and error-coercer accounting"
LEVEL_TEXT = (
    "Generated-input search over arbitrary and mutated query texts (str and bytes), operation names, variables objects and error "
    "coercers against a predicate on the response envelope; syntax errors and failed operation selection must refuse without running "
    "anything. Exploration; the front end is the stand-in parser."
)
LEVEL_NOTE = "trusts: the envelope predicate; classification of syntax errors by the stand-in front end (the real libgraphqlparser is not available)"
