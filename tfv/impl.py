"""Harness side of a running tartiflette engine: logging resolvers, type
resolvers, scalar codecs, directive stubs - wired from a schema model + plan."""
import copy
import itertools
import json
import types
import zlib

from tfv import boot

boot.boot()

from tartiflette import (  # noqa: E402
    Directive,
    Engine,
    Resolver,
    Scalar,
    Subscription,
    TartifletteError,
    TypeResolver,
    create_engine,
)
from tartiflette.constants import UNDEFINED_VALUE  # noqa: E402
from tartiflette.language.ast import IntValueNode, StringValueNode  # noqa: E402
from tartiflette.schema.registry import SchemaRegistry  # noqa: E402

from tfv.data import arg_echo, deref  # noqa: E402
from tfv.model import fields_of, kind_of, named, possible_types, print_sdl, ty  # noqa: E402
from tfv.ref import CODECS, Fault  # noqa: E402

_counter = itertools.count()


def fresh_schema_name(prefix="s"):
    return "%s%d" % (prefix, next(_counter))


def clean_registry():
    SchemaRegistry.clean()


class UserError(TartifletteError):
    def __init__(self, message, extensions):
        super().__init__(message)
        self.extensions = dict(extensions)


class DuckError(Exception):
    """application error that renders itself: not a TartifletteError, only the `coerce_value` the engine asks for
    (tartiflette.utils.errors.is_coercible_exception); no path / locations attributes"""

    def __init__(self, message, extensions):
        super().__init__(message)
        self._message, self._extensions = message, dict(extensions)

    def coerce_value(self, *_args, path=None, locations=None, **_kwargs):
        out = {"message": self._message, "path": path, "locations": [loc.collect_value() for loc in locations or []]}
        if self._extensions:
            out["extensions"] = dict(self._extensions)
        return out


RAISED_CLASSES = [RuntimeError, TypeError, ValueError, AttributeError, LookupError, ArithmeticError, OSError, AssertionError]
ODD_EXCEPTIONS = [
    lambda: KeyError(7), lambda: KeyError(None), lambda: KeyError((1, 2)), lambda: KeyError(), lambda: ValueError(), lambda: Exception(5),
    lambda: Exception(b"\xff"), lambda: Exception({"a": 1}), lambda: IndexError(3.5), lambda: Exception("a", 2), lambda: Exception(None),
]


class FalsyContext(dict):
    """an empty dict subclass: falsy, yet the object the caller expects resolvers to receive"""


class PlainObj:
    def __repr__(self):  # no memory address: engine messages embed reprs and responses are compared
        return "<PlainObj>"


class Row:
    """row-like value: subscriptable, not a dict, no attributes"""

    __slots__ = ("_d",)

    def __init__(self, d):
        object.__setattr__(self, "_d", d)

    def __getitem__(self, k):
        return object.__getattribute__(self, "_d")[k]

    def __getattribute__(self, k):
        if k.startswith("__") or k == "_d":
            return object.__getattribute__(self, k)
        raise AttributeError(k)

    def __repr__(self):
        return "<Row>"


class Materialiser:
    """node dict -> python object of the node's shape; identity-stable."""

    def __init__(self, tree):
        self.tree = tree
        self.memo = {}
        self.classes = {}

    def obj(self, node):
        nid = node["_nid"]
        if nid in self.memo:
            return self.memo[nid]
        shape = node.get("_shape", 0)
        if shape in (0, 3, 4):
            d = {"_typename": node["_typename"], "_nid": nid}
            o = d if shape == 0 else (types.MappingProxyType(d) if shape == 3 else Row(d))
            self.memo[nid] = o
            for k, v in node.items():
                if not k.startswith("_"):
                    d[k] = deref(self.tree, v, self)
        else:
            if shape == 1:
                o = PlainObj()
                o._typename = node["_typename"]
            else:
                cls = self.classes.get(node["_typename"])
                if cls is None:
                    cls = type(node["_typename"], (), {"__repr__": lambda self: "<%s instance>" % type(self).__name__})
                    self.classes[node["_typename"]] = cls
                o = cls()
            o._nid = nid
            self.memo[nid] = o
            for k, v in node.items():
                if not k.startswith("_"):
                    setattr(o, k, deref(self.tree, v, self))
        return o


_MAPPINGS = (dict, types.MappingProxyType, Row)


def _item(m, k):
    try:
        return m[k]
    except KeyError:
        return None


def node_get(parent, field):
    if isinstance(parent, _MAPPINGS):
        return _item(parent, field)
    return getattr(parent, field, None)


def nid_of(parent):
    if parent is None:
        return None
    if isinstance(parent, _MAPPINGS):
        return _item(parent, "_nid")
    return getattr(parent, "_nid", None)


def typename_of(value):
    if isinstance(value, _MAPPINGS):
        return _item(value, "_typename")
    tn = getattr(value, "_typename", None)
    return tn if tn is not None else value.__class__.__name__


def scramble_in_place(v):
    """what a resolver working on its arguments in place does: append / insert / overwrite"""
    if isinstance(v, dict):
        for x in list(v.values()):
            scramble_in_place(x)
        v["zz_scrambled"] = 1
    elif isinstance(v, list):
        for x in v:
            scramble_in_place(x)
        v.append("zz_scrambled")


class RequestState:
    """per-request harness state: data, logs, the context object handed to execute"""

    def __init__(self, tree, ctx=None, rid=0):
        self.tree = tree
        self.mat = Materialiser(tree) if tree is not None else None
        self.calls = []
        self.type_calls = []
        self.unexpected = []
        self.hooks = []
        self.rid = rid
        self.ctx = ctx if ctx is not None else {"$rs": self, "rid": rid}
        self.fault_seq = itertools.count()


class Harness:
    """plan keys (all optional):
      default_fields: list of "Type.field" left to the engine's default resolver
      custom_default_resolver: bool
      tr_field: list of coordinates with a field-level type_resolver
      tr_type: list of abstract type names with @TypeResolver
      tr_engine: bool (custom_default_type_resolver)
      tr_object: bool (type resolvers return the GraphQLObjectType, not its name)
      concurrency: {"Type.field": {"list": None|bool, "parent": None|bool}}
      sdl_split: {type name: k} - the SDL defines these types as definition + `extend` block (model.split_type)
      scramble_args: bool - the argument dictionaries handed to resolvers are kept, and modified in place once their
        request is over (scramble_live, called by the check), as user code holding on to its arguments may do;
        nothing of that may reach a later request.  (Within one request a coerced variable value is legitimately
        the same object at each of its uses - as in the reference implementation - so nothing is touched earlier.)
    """

    def __init__(self, schema, plan, tree, schema_name=None, gate=None):
        self.schema = schema
        self.plan = plan or {}
        self.name = schema_name or fresh_schema_name()
        # plan["falsy_context"]: the caller's context object is an *empty* mapping (resolvers fill it / read attributes of it)
        self.ctx_token = FalsyContext() if self.plan.get("falsy_context") else {"token": self.name}
        self.rs = RequestState(tree, self.ctx_token)
        self.gate = gate  # async callable(label) or None
        self.sdl = None
        self.engine = None
        self.live_args = []
        self.foreign = []  # tokens of foreign requests served by this harness' implementations (must stay empty)

    # default request state (one request at a time); C15 passes its own states through the context
    tree = property(lambda self: self.rs.tree)
    mat = property(lambda self: self.rs.mat)
    calls = property(lambda self: self.rs.calls)
    type_calls = property(lambda self: self.rs.type_calls)
    unexpected = property(lambda self: self.rs.unexpected)
    hooks = property(lambda self: self.rs.hooks)

    def state_of(self, ctx):
        if isinstance(ctx, dict) and "$rs" in ctx:
            return ctx["$rs"]
        if isinstance(ctx, dict) and "token" in ctx and ctx is not self.ctx_token:
            # a request of another harness (another schema name) reached an implementation registered for this one
            self.foreign.append(ctx.get("token"))
        return self.rs

    # ---------------------------------------------------------------- resolvers
    def serve(self, rs, parent, obj, field, args, path):
        fd = fields_of(self.schema, obj)[field]
        f = rs.tree.faults.get(path) or rs.tree.faults.get(("$at", nid_of(parent), field))
        if f is not None:
            return self.perform(rs, f, path=path)
        node = rs.tree.store["nodes"].get(str(nid_of(parent))) if nid_of(parent) is not None else None
        if node is None or field not in node:
            rs.unexpected.append((path, "%s.%s" % (obj, field)))
            return None
        v = node_get(rs.mat.obj(node), field)
        if args and fd["type"] in ("String", "String!") and isinstance(v, str) and self.plan.get("echo_args", True):
            v = arg_echo(v, args)
        return self.item_faults(rs, v, path)

    def item_faults(self, rs, v, path):
        if isinstance(v, list) and rs.tree.faults:
            out = []
            for i, x in enumerate(v):
                f = rs.tree.faults.get(path + (i,))
                if f is not None:
                    out.append(self.perform(rs, f, as_item=True))
                else:
                    out.append(self.item_faults(rs, x, path + (i,)))
            return out
        return v

    def perform(self, rs, f, as_item=False, path=None):
        n = next(rs.fault_seq)
        if f.kind == "raise":
            # user code fails with all sorts of exception classes
            raise RAISED_CLASSES[(n + zlib.crc32(repr(path).encode())) % len(RAISED_CLASSES)]("boom-%d" % n)
        if f.kind == "raise_tartiflette":
            if f.payload.get("duck"):
                raise DuckError(f.payload["message"], f.payload["extensions"])
            err = UserError(f.payload["message"], f.payload["extensions"])
            if f.payload.get("located") and path is not None:
                err.path = list(path)  # user code that fills in the path itself
            raise err
        if f.kind == "return_exception":
            return ValueError("returned-%d" % n)
        if f.kind == "raise_odd":
            # what look-up style user code raises: exceptions whose arguments are not text, or missing
            raise ODD_EXCEPTIONS[f.payload % len(ODD_EXCEPTIONS)]()
        if f.kind == "raise_shared":
            # one exception object failing several positions of one request (a batch loader failing all its keys)
            if getattr(rs, "shared_error", None) is None:
                rs.shared_error = UserError("shared failure", {"code": "SHARED"})
            raise rs.shared_error
        if f.kind == "shared_plain":
            # one ordinary (non-library) exception object failing several positions of one request - raised by resolvers,
            # or handed back as a value / list item (asyncio.gather(..., return_exceptions=True) passed on)
            if getattr(rs.tree, "shared_plain_error", None) is None:
                rs.tree.shared_plain_error = ValueError("shared plain failure")
            if as_item:
                return rs.tree.shared_plain_error
            raise rs.tree.shared_plain_error
        if f.kind == "raise_tagged_in_place":
            # user code annotating a library error it created without extensions, through the public attribute
            err = TartifletteError("Forbidden-%d" % n)
            err.extensions["code"] = "FORBIDDEN"
            raise err
        if f.kind == "value":
            return materialise_bad(f.payload)
        raise AssertionError("unknown fault kind %r" % (f.kind,))

    def make_resolver(self, obj, field):
        coord = "%s.%s" % (obj, field)
        H = self

        async def resolver(parent, args, ctx, info):
            path = tuple(info.path.as_list())
            rs = H.state_of(ctx)
            seen = copy.deepcopy(args)
            rs.calls.append((path, coord, nid_of(parent), seen, ctx is rs.ctx))
            if H.plan.get("scramble_args"):
                H.live_args.append(args)
            if H.gate is not None:
                await H.gate(("resolver", path) if rs is H.rs else ("resolver", path, rs.rid))
            return H.serve(rs, parent, obj, field, seen, path)

        resolver.__name__ = "res_%s_%s" % (obj, field)
        return resolver

    async def custom_default_resolver(self, parent, args, ctx, info):
        path = tuple(info.path.as_list())
        coord = "%s.%s" % (info.parent_type.name, info.field_name)
        rs = self.state_of(ctx)
        seen = copy.deepcopy(args)
        rs.calls.append((path, coord, nid_of(parent), seen, ctx is rs.ctx))
        if self.plan.get("scramble_args"):
            self.live_args.append(args)
        if self.gate is not None:
            await self.gate(("resolver", path) if rs is self.rs else ("resolver", path, rs.rid))
        return self.serve(rs, parent, info.parent_type.name, info.field_name, seen, path)

    # ---------------------------------------------------------------- type resolvers
    def _answer(self, value, abstract, level, info, coord, ctx=None):
        rs = self.state_of(ctx)
        levels_present = []
        if coord in (self.plan.get("tr_field") or ()):
            levels_present.append("field")
        if abstract in (self.plan.get("tr_type") or ()):
            levels_present.append("type")
        if self.plan.get("tr_engine"):
            levels_present.append("engine")
        path = tuple(info.path.as_list())
        rs.type_calls.append((path, abstract, coord, level))
        f = rs.tree.faults.get(("$type", nid_of(value)))
        truth = typename_of(value)
        if f is not None:
            answer = f.payload
        elif levels_present and levels_present[0] == level:
            answer = truth
        else:
            poss = possible_types(self.schema, abstract)
            answer = poss[(poss.index(truth) + 1) % len(poss)] if truth in poss else truth
        if self.plan.get("tr_object") and isinstance(answer, str):
            try:
                return info.schema.find_type(answer)
            except KeyError:
                return answer
        return answer

    def make_type_resolver(self, level, fixed_coord=None):
        H = self

        def type_resolver(result, ctx, info, abstract_type):
            coord = "%s.%s" % (info.parent_type.name, info.field_name)
            return H._answer(result, abstract_type.name, level, info, coord, ctx)

        return type_resolver

    # ---------------------------------------------------------------- registration
    def registration_steps(self):
        """one thunk per decorator application, so that callers (C17) can interleave the
        registrations of several bundles"""
        steps = []
        default_fields = set(self.plan.get("default_fields") or ())
        conc = self.plan.get("concurrency") or {}
        for tn, td in self.schema["types"].items():
            if td["kind"] != "OBJECT" or tn.startswith("__"):
                continue
            for fn, fd in td["fields"].items():
                if fn.startswith("__"):
                    continue
                coord = "%s.%s" % (tn, fn)
                if coord in default_fields:
                    continue
                kw = {}
                if coord in (self.plan.get("tr_field") or ()):
                    kw["type_resolver"] = self.make_type_resolver("field")
                cc = conc.get(coord)
                if cc:
                    kw["list_concurrently"] = cc.get("list")
                    kw["parent_concurrently"] = cc.get("parent")
                elif self.plan.get("inherit_parent_concurrency"):
                    kw["parent_concurrently"] = None
                steps.append(lambda coord=coord, kw=kw, tn=tn, fn=fn: Resolver(coord, schema_name=self.name, **kw)(self.make_resolver(tn, fn)))
        for an in self.plan.get("tr_type") or ():
            steps.append(lambda an=an: TypeResolver(an, schema_name=self.name)(self.make_type_resolver("type")))
        for n, d in self.schema["types"].items():
            if d["kind"] == "SCALAR":
                steps.append(lambda n=n, d=d: self.register_scalar(n, d))
        if self.plan.get("override_string"):
            # this schema name brings its own implementation of the built-in String (its SDL then declares `scalar String`)
            steps.append(lambda: Scalar("String", schema_name=self.name)(make_string_override(self.plan["override_string"])))
        for n in self.schema.get("directives") or {}:
            if n in ("skip", "include", "deprecated", "nonIntrospectable"):
                continue
            factory = getattr(self, "directive_factory", None) or (lambda n: make_counting_directive(self, n))
            steps.append(lambda n=n, factory=factory: Directive(n, schema_name=self.name)(factory(n)))
        return steps

    def register_scalar(self, n, d):
        """with plan["scalar_stateful"] the implementation class counts its uses per instance; harnesses sharing a
        `stacked_scalars` dict (C17 siblings) decorate what the other's decorator call returned - the stacked-decorator idiom
        @Scalar(n, schema_name=a) @Scalar(n, schema_name=b) class X - so both names are linked to one *class*"""
        shared = getattr(self, "stacked_scalars", None)
        impl = shared.get(n) if shared is not None else None
        if impl is None:
            impl = make_scalar(CODECS[d.get("codec", "tagged")], self.plan.get("scalar_tag"), bool(self.plan.get("scalar_stateful")))
        ret = Scalar(n, schema_name=self.name)(impl)
        if shared is not None:
            shared[n] = ret

    def register(self):
        for step in self.registration_steps():
            step()

    async def build(self, **kw):
        self.register()
        self.sdl = self.plan.get("sdl") or print_sdl(self.schema, ext_dirs=bool(self.plan.get("sdl_ext_dirs")), split=self.plan.get("sdl_split"))
        if self.plan.get("override_string"):
            self.sdl += "\nscalar String\n"
        if self.plan.get("custom_default_resolver"):
            kw["custom_default_resolver"] = self.custom_default_resolver
        if self.plan.get("tr_engine"):
            kw["custom_default_type_resolver"] = self.make_type_resolver("engine")
        if self.plan.get("two_step"):
            # configuration given to the constructor, cook() called without repeating it
            self.engine = Engine(self.sdl, schema_name=self.name, **kw)
            await self.engine.cook()
        else:
            self.engine = await create_engine(self.sdl, schema_name=self.name, **kw)
        return self.engine

    def scramble_live(self):
        for a in self.live_args:
            scramble_in_place(a)
        self.live_args = []

    def set_tree(self, tree):
        """switch to the data of another request on the same engine"""
        self.rs = RequestState(tree, self.ctx_token)

    def root_value(self, typename):
        return self.mat.obj(self.tree.root(typename))

    def reset_logs(self):
        self.rs = RequestState(self.rs.tree, self.ctx_token)


class ArgHarness(Harness):
    """adds a @Subscription source per field of the subscription root (if any): logs the arguments it was created
    with (kept for scramble_live, like the resolvers' dictionaries) and yields one event"""

    def __init__(self, *a, **k):
        super().__init__(*a, **k)
        self.sargs = []

    def registration_steps(self):
        steps = super().registration_steps()
        root = self.schema["roots"].get("subscription")
        H = self

        def mk(fn):
            async def source(parent, args, ctx, info):
                H.sargs.append((fn, copy.deepcopy(args)))
                H.live_args.append(args)
                yield {}
            return source

        for fn in (self.schema["types"][root]["fields"] if root else ()):
            steps.append(lambda fn=fn: Subscription("%s.%s" % (root, fn), schema_name=self.name)(mk(fn)))
        return steps


class CountingDirective:
    """Pass-through directive implementing every per-field / per-value hook; counts
    invocations in the request state of its harness.  One shared class, one *instance*
    per (harness, directive name): engines of different schema names get differently
    configured instances of the same class.  With plan["directive_tag"] set, field
    hooks append that tag to String results (behaviour that differs between bundles)."""

    def __init__(self, H, name):
        self.H, self.name = H, name

    async def on_argument_execution(self, directive_args, next_directive, parent_node, argument_definition_node, argument_node, value, ctx):
        H, name = self.H, self.name
        rs = H.state_of(ctx)
        rs.hooks.append((name, "on_argument_execution"))
        if H.plan.get("refuse_unwritten_arguments") and argument_node is None:
            # a validating argument directive that refuses to work on a value the request did not write (SDL default)
            raise ValueError("argument not written in the request")
        if H.gate is not None and H.plan.get("gate_hooks"):
            await H.gate(("hook", name, "on_argument_execution", len(rs.hooks), rs.rid))
        return await next_directive(parent_node, argument_definition_node, argument_node, value, ctx)

    async def on_post_input_coercion(self, directive_args, next_directive, parent_node, value, ctx):
        H, name = self.H, self.name
        rs = H.state_of(ctx)
        rs.hooks.append((name, "on_post_input_coercion"))
        if H.gate is not None and H.plan.get("gate_hooks"):
            await H.gate(("hook", name, "on_post_input_coercion", len(rs.hooks), rs.rid))
        return await next_directive(parent_node, value, ctx)

    async def on_field_execution(self, directive_args, next_resolver, parent, args, ctx, info):
        self.H.state_of(ctx).hooks.append((self.name, "on_field_execution"))
        r = await next_resolver(parent, args, ctx, info)
        tag = self.H.plan.get("directive_tag")
        if tag and isinstance(r, str) and str(info.return_type).rstrip("!") == "String":
            r = "%s<%s:%s>" % (r, tag, self.name)
        if self.H.plan.get("echo_directive_args") and isinstance(r, str) and str(info.return_type).rstrip("!") == "String":
            r = "%s<@%s%s>" % (r, self.name, json.dumps(directive_args, sort_keys=True, default=str))  # what this usage's arguments were coerced to
        return r

    async def on_pre_output_coercion(self, directive_args, next_directive, value, ctx, info):
        rs = self.H.state_of(ctx)
        rs.hooks.append((self.name, "on_pre_output_coercion"))
        f = rs.tree.faults.get(("$outhook",) + tuple(info.path.as_list())) if (rs.tree is not None and rs.tree.faults) else None
        if f is not None:
            # a directive on the value's type / enum value refusing the value with a library error of its own
            raise UserError(f.payload["message"], f.payload["extensions"])
        return await next_directive(value, ctx, info)

    def denies(self, ctx):
        return bool(self.H.plan.get("schema_hook_denies")) and isinstance(ctx, dict) and ctx.get("rid", 0) % 3 == 2

    async def on_schema_execution(self, directive_args, next_directive, schema, document, parsing_errors, operation_name, context, variables, initial_value):
        self.H.state_of(context).hooks.append((self.name, "on_schema_execution"))
        if self.denies(context):
            raise RuntimeError("request %s is not allowed" % context.get("rid"))  # an access rule that depends on the caller
        # forwarding by keyword, as the parameter names are part of the documented signature
        return await next_directive(schema, document, parsing_errors, operation_name=operation_name, context=context, variables=variables, initial_value=initial_value)

    async def on_schema_subscription(self, directive_args, next_directive, schema, document, parsing_errors, operation_name, context, variables, initial_value):
        self.H.state_of(context).hooks.append((self.name, "on_schema_subscription"))
        async for result in next_directive(schema, document, parsing_errors, operation_name=operation_name, context=context, variables=variables, initial_value=initial_value):
            yield result

    async def on_introspection(self, directive_args, next_directive, introspected_element, ctx, info):
        # with plan["introspection_by_rid"], what a caller may see depends on the caller: requests with an odd id do not
        # get the elements carrying this directive (a per-caller visibility rule, as the documentation suggests)
        if self.H.plan.get("introspection_by_rid") and isinstance(ctx, dict) and ctx.get("rid", 0) % 2 == 1:
            return None
        return await next_directive(introspected_element, ctx, info)

    async def on_field_collection(self, directive_args, next_directive, field_node, ctx):
        self.H.state_of(ctx).hooks.append((self.name, "on_field_collection"))
        return await next_directive(field_node, ctx)

    async def on_fragment_spread_collection(self, directive_args, next_directive, fragment_spread_node, ctx):
        self.H.state_of(ctx).hooks.append((self.name, "on_fragment_spread_collection"))
        return await next_directive(fragment_spread_node, ctx)

    async def on_inline_fragment_collection(self, directive_args, next_directive, inline_fragment_node, ctx):
        self.H.state_of(ctx).hooks.append((self.name, "on_inline_fragment_collection"))
        return await next_directive(inline_fragment_node, ctx)


def make_counting_directive(H, name):
    return CountingDirective(H, name)


class Unserialisable:
    def __str__(self):
        raise ValueError("no str")

    def __repr__(self):
        return "<Unserialisable>"


def materialise_bad(payload):
    """fault payloads are JSON-able markers"""
    if isinstance(payload, dict) and "$bad" in payload:
        k = payload["$bad"]
        if k == "unserialisable":
            return Unserialisable()
        if k == "object":
            return PlainObj()
    return payload


def make_string_override(tag):
    from tartiflette.scalar.builtins.string import ScalarString

    class TaggedString(ScalarString):
        def coerce_output(self, val):
            return "%s~%s" % (super().coerce_output(val), tag)

    return TaggedString


def make_scalar(codec, tag=None, stateful=False):
    """tag: marks what this implementation's input side produces (C17: the same scalar name is implemented differently
    under every schema name; resolvers echo their arguments, so the marker shows in responses)"""

    def mark(v):
        if tag is None:
            return v
        return "%s~%s" % (v, tag) if isinstance(v, str) else v + 1000 * (1 + sum(map(ord, tag)) % 7)

    class _S:
        def __init__(self):
            self.uses = 0  # per-instance state (only shown when `stateful`)

        def coerce_output(self, v):
            return codec.to_wire(v)

        def count(self, v):
            if stateful:
                self.uses += 1
                v = "%s#%d" % (v, self.uses) if isinstance(v, str) else v + 100000 * self.uses
            return v

        def coerce_input(self, v):
            return self.count(mark(codec.from_wire(v)))

        def parse_literal(self, ast):
            try:
                if isinstance(ast, StringValueNode):
                    return self.count(mark(codec.from_literal(["str", ast.value])))
                if isinstance(ast, IntValueNode):
                    return self.count(mark(codec.from_literal(["int", str(ast.value)])))
            except ValueError:
                pass
            return UNDEFINED_VALUE

    return _S
