"""Answers from a process in which tartiflette has never served anything.

`Pristine()` forks a zygote *now* - call it before the current process has built an engine or executed a
request.  Each `call(module, function, *args)` makes the zygote fork a child that imports `module`, runs
`function(*args)` and sends the pickled result back; the child exits afterwards, so every call sees the
library's module-level state exactly as it is after import ("a fresh engine in a fresh process").  Forking is
cheap (no interpreter start-up, no re-import), which is what makes a per-request fresh-process oracle affordable.
"""
import importlib
import os
import pickle
import struct
import traceback


def _send(fd, obj):
    data = pickle.dumps(obj)
    os.write(fd, struct.pack("<Q", len(data)))
    view = memoryview(data)
    while view:
        n = os.write(fd, view[:65536])
        view = view[n:]


def _read_exact(fd, n):
    buf = b""
    while len(buf) < n:
        chunk = os.read(fd, n - len(buf))
        if not chunk:
            raise EOFError
        buf += chunk
    return buf


def _recv(fd):
    (n,) = struct.unpack("<Q", _read_exact(fd, 8))
    return pickle.loads(_read_exact(fd, n))


class PristineError(Exception):
    pass


class Pristine:
    def __init__(self):
        req_r, req_w = os.pipe()
        res_r, res_w = os.pipe()
        pid = os.fork()
        if pid == 0:
            os.close(req_w)
            os.close(res_r)
            try:
                self._zygote(req_r, res_w)
            finally:
                os._exit(0)
        os.close(req_r)
        os.close(res_w)
        self.pid, self.req, self.res = pid, req_w, res_r
        self.calls = 0

    @staticmethod
    def _zygote(req, res):
        while True:
            try:
                job = _recv(req)
            except EOFError:
                return
            if job is None:
                return
            child = os.fork()
            if child == 0:
                try:
                    mod, fn, args = job
                    out = ("ok", getattr(importlib.import_module(mod), fn)(*args))
                except BaseException as e:  # noqa
                    out = ("err", "%r\n%s" % (e, traceback.format_exc()))
                try:
                    _send(res, out)
                finally:
                    os._exit(0)
            _, status = os.waitpid(child, 0)
            if status != 0:
                _send(res, ("err", "child exited with status %r" % (status,)))

    def call(self, module, function, *args):
        _send(self.req, (module, function, args))
        kind, value = _recv(self.res)
        self.calls += 1
        if kind != "ok":
            raise PristineError(value)
        return value

    def close(self):
        try:
            _send(self.req, None)
            os.close(self.req)
            os.close(self.res)
            os.waitpid(self.pid, 0)
        except OSError:
            pass
