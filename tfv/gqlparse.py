"""Scratch stand-in for libgraphqlparser: GraphQL executable document -> JSON AST (dict)."""
import re, json

class GQLSyntaxError(Exception):
    pass

_TOKEN_RE = re.compile(r'''
    (?P<ws>[ \t﻿,]+)
  | (?P<nl>\r\n|\n|\r)
  | (?P<comment>\#[^\n\r]*)
  | (?P<spread>\.\.\.)
  | (?P<punct>[!$()\[\]{}:=@|&])
  | (?P<name>[_A-Za-z][_0-9A-Za-z]*)
  | (?P<number>-?(?:0|[1-9][0-9]*)(?P<frac>\.[0-9]+)?(?P<exp>[eE][+-]?[0-9]+)?)
  | (?P<block>"""(?:[^"\\]|\\(?!""")|\\"""|"(?!""))*""")
  | (?P<string>"(?:[^"\\\n\r]|\\(?:u[0-9a-fA-F]{4}|["\\/bfnrt]))*")
''', re.X)

_TYPE_SYSTEM_KINDS = {
    'schema': 'SchemaDefinition', 'scalar': 'ScalarTypeDefinition', 'type': 'ObjectTypeDefinition',
    'interface': 'InterfaceTypeDefinition', 'union': 'UnionTypeDefinition', 'enum': 'EnumTypeDefinition',
    'input': 'InputObjectTypeDefinition', 'directive': 'DirectiveDefinition',
}
_TYPE_SYSTEM_KEYWORDS = set(_TYPE_SYSTEM_KINDS) | {'extend'}


class Tok:
    __slots__ = ("kind", "value", "line", "col", "eline", "ecol")
    def __init__(s, kind, value, line, col, eline, ecol):
        s.kind, s.value, s.line, s.col, s.eline, s.ecol = kind, value, line, col, eline, ecol
    def __repr__(s): return f"Tok({s.kind},{s.value!r},{s.line}:{s.col})"

_ESC = {'"': '"', '\\': '\\', '/': '/', 'b': '\b', 'f': '\f', 'n': '\n', 'r': '\r', 't': '\t'}

def _unescape(s):
    out = []; i = 0
    while i < len(s):
        c = s[i]
        if c == '\\':
            n = s[i+1]
            if n == 'u':
                out.append(chr(int(s[i+2:i+6], 16))); i += 6
            else:
                out.append(_ESC[n]); i += 2
        else:
            out.append(c); i += 1
    return ''.join(out)

def _block_value(raw):
    raw = raw.replace('\\"""', '"""')
    lines = re.split(r'\r\n|\n|\r', raw)
    common = None
    for l in lines[1:]:
        indent = len(l) - len(l.lstrip(' \t'))
        if indent < len(l) and (common is None or indent < common):
            common = indent
    if common:
        lines = [lines[0]] + [l[common:] for l in lines[1:]]
    while lines and not lines[0].strip(' \t'): lines.pop(0)
    while lines and not lines[-1].strip(' \t'): lines.pop()
    return '\n'.join(lines)

def tokenize(text):
    toks = []; pos = 0; line = 1; col = 1; n = len(text)
    while pos < n:
        m = _TOKEN_RE.match(text, pos)
        if not m:
            raise GQLSyntaxError(f"{line}.{col}: syntax error, unexpected character {text[pos]!r}")
        kind = m.lastgroup
        if kind in ('frac', 'exp'):
            kind = 'number'
        s = m.group(0)
        width = len(s.encode('utf-8'))
        if kind == 'nl':
            line += 1; col = 1
        elif kind in ('ws', 'comment'):
            col += width
        elif kind == 'block':
            nls = re.findall(r'\r\n|\n|\r', s)
            if nls:
                eline = line + len(nls)
                last = re.split(r'\r\n|\n|\r', s)[-1]
                ecol = 1 + len(last.encode('utf-8'))
            else:
                eline, ecol = line, col + width
            toks.append(Tok('string', _block_value(s[3:-3]), line, col, eline, ecol))
            line, col = eline, ecol
        else:
            if kind == 'number':
                k = 'float' if (m.group('frac') or m.group('exp')) else 'int'
                # a number must not be directly followed by a name start / digit / dot
                if m.end() < n and re.match(r'[_A-Za-z0-9.]', text[m.end()]):
                    raise GQLSyntaxError(f"{line}.{col}: syntax error, invalid number")
                toks.append(Tok(k, s, line, col, line, col + width))
            elif kind == 'string':
                toks.append(Tok('string', _unescape(s[1:-1]), line, col, line, col + width))
            elif kind == 'spread':
                toks.append(Tok('punct', s, line, col, line, col + width))
            else:
                toks.append(Tok(kind, s, line, col, line, col + width))
            col += width
        pos = m.end()
    toks.append(Tok('eof', None, line, col, line, col))
    return toks

def _loc(start, end):
    return {"start": {"line": start.line, "column": start.col},
            "end": {"line": end.eline, "column": end.ecol}}

class Parser:
    def __init__(self, text):
        self.toks = tokenize(text); self.i = 0
    @property
    def tok(self): return self.toks[self.i]
    @property
    def prev(self): return self.toks[self.i - 1]
    def err(self, what=None):
        t = self.tok
        raise GQLSyntaxError(f"{t.line}.{t.col}: syntax error, unexpected {t.kind if t.value is None else t.value}" + (f", expecting {what}" if what else ""))
    def at(self, kind, value=None):
        t = self.tok
        return t.kind == kind and (value is None or t.value == value)
    def eat(self, kind, value=None):
        if not self.at(kind, value): self.err(value or kind)
        self.i += 1; return self.prev
    def opt(self, kind, value=None):
        if self.at(kind, value):
            self.i += 1; return self.prev
        return None

    def name(self):
        t = self.eat('name')
        return {"kind": "Name", "loc": _loc(t, t), "value": t.value}

    def document(self):
        defs = []
        start = self.tok
        while not self.at('eof'):
            defs.append(self.definition())
        if not defs: self.err()
        return {"kind": "Document", "loc": _loc(start, self.prev), "definitions": defs}

    def definition(self):
        if self.at('punct', '{'):
            start = self.tok
            ss = self.selection_set()
            return {"kind": "OperationDefinition", "loc": _loc(start, self.prev), "operation": "query",
                    "name": None, "variableDefinitions": None, "directives": None, "selectionSet": ss}
        if self.at('name') and self.tok.value in ('query', 'mutation', 'subscription'):
            return self.operation()
        if self.at('name', 'fragment'):
            return self.fragment_def()
        if self.at('string') or (self.at('name') and self.tok.value in _TYPE_SYSTEM_KEYWORDS):
            return self.type_system_definition()
        self.err()

    def type_system_definition(self):
        """libgraphqlparser also accepts type-system definitions in a document; the
        engine only looks at their `kind`.  Parsed loosely: keyword, name, then a
        balanced body up to the next top-level definition keyword."""
        start = self.tok
        self.opt('string')  # description
        kw = self.eat('name').value
        ext = kw == 'extend'
        if ext:
            kw = self.eat('name').value
        if kw not in _TYPE_SYSTEM_KINDS:
            self.i -= 1
            self.err()
        name = None
        if kw == 'directive':
            self.eat('punct', '@')
            name = self.name()
        elif kw != 'schema':
            name = self.name()
        depth = 0
        while not self.at('eof'):
            t = self.tok
            if t.kind == 'punct' and t.value in '{([':
                depth += 1
            elif t.kind == 'punct' and t.value in '})]':
                depth -= 1
                if depth < 0:
                    self.err()
            elif depth == 0 and (
                (t.kind == 'punct' and t.value == '{')
                or (t.kind == 'name' and t.value in ('query', 'mutation', 'subscription', 'fragment') and kw not in ('directive', 'schema'))
                or (t.kind == 'name' and t.value in _TYPE_SYSTEM_KEYWORDS and kw != 'directive')
            ):
                break
            self.i += 1
        if depth != 0:
            self.err()
        kind = _TYPE_SYSTEM_KINDS[kw]
        if ext:
            kind = kind.replace('Definition', 'Extension')
        return {"kind": kind, "loc": _loc(start, self.prev), "name": name}

    def operation(self):
        start = self.eat('name')
        name = self.name() if self.at('name') else None
        vds = self.variable_definitions() if self.at('punct', '(') else None
        dirs = self.directives()
        ss = self.selection_set()
        return {"kind": "OperationDefinition", "loc": _loc(start, self.prev), "operation": start.value,
                "name": name, "variableDefinitions": vds, "directives": dirs, "selectionSet": ss}

    def variable_definitions(self):
        self.eat('punct', '(')
        out = []
        while not self.at('punct', ')'):
            out.append(self.variable_definition())
        if not out: self.err()
        self.eat('punct', ')')
        return out

    def variable(self):
        start = self.eat('punct', '$')
        name = self.name()
        return {"kind": "Variable", "loc": _loc(start, self.prev), "name": name}

    def variable_definition(self):
        start = self.tok
        var = self.variable()
        self.eat('punct', ':')
        typ = self.type()
        default = None
        if self.opt('punct', '='):
            default = self.value(const=True)
        return {"kind": "VariableDefinition", "loc": _loc(start, self.prev), "variable": var,
                "type": typ, "defaultValue": default}

    def type(self):
        start = self.tok
        if self.opt('punct', '['):
            inner = self.type()
            self.eat('punct', ']')
            t = {"kind": "ListType", "loc": _loc(start, self.prev), "type": inner}
        else:
            n = self.name()
            t = {"kind": "NamedType", "loc": _loc(start, self.prev), "name": n}
        if self.opt('punct', '!'):
            t = {"kind": "NonNullType", "loc": _loc(start, self.prev), "type": t}
        return t

    def directives(self):
        out = []
        while self.at('punct', '@'):
            start = self.eat('punct', '@')
            name = self.name()
            args = self.arguments() if self.at('punct', '(') else None
            out.append({"kind": "Directive", "loc": _loc(start, self.prev), "name": name, "arguments": args})
        return out or None

    def arguments(self):
        self.eat('punct', '(')
        out = []
        while not self.at('punct', ')'):
            start = self.tok
            name = self.name()
            self.eat('punct', ':')
            val = self.value()
            out.append({"kind": "Argument", "loc": _loc(start, self.prev), "name": name, "value": val})
        if not out: self.err()
        self.eat('punct', ')')
        return out

    def selection_set(self):
        start = self.eat('punct', '{')
        sels = []
        while not self.at('punct', '}'):
            sels.append(self.selection())
        if not sels: self.err()
        self.eat('punct', '}')
        return {"kind": "SelectionSet", "loc": _loc(start, self.prev), "selections": sels}

    def selection(self):
        if self.at('punct', '...'):
            start = self.eat('punct', '...')
            if self.at('name') and self.tok.value != 'on':
                name = self.name()
                dirs = self.directives()
                return {"kind": "FragmentSpread", "loc": _loc(start, self.prev), "name": name, "directives": dirs}
            tc = None
            if self.opt('name', 'on'):
                ts = self.tok
                n = self.name()
                tc = {"kind": "NamedType", "loc": _loc(ts, self.prev), "name": n}
            dirs = self.directives()
            ss = self.selection_set()
            return {"kind": "InlineFragment", "loc": _loc(start, self.prev), "typeCondition": tc,
                    "directives": dirs, "selectionSet": ss}
        start = self.tok
        name = self.name(); alias = None
        if self.opt('punct', ':'):
            alias = name; name = self.name()
        args = self.arguments() if self.at('punct', '(') else None
        dirs = self.directives()
        ss = self.selection_set() if self.at('punct', '{') else None
        return {"kind": "Field", "loc": _loc(start, self.prev), "alias": alias, "name": name,
                "arguments": args, "directives": dirs, "selectionSet": ss}

    def fragment_def(self):
        start = self.eat('name', 'fragment')
        if self.at('name', 'on'): self.err()
        name = self.name()
        self.eat('name', 'on')
        ts = self.tok
        n = self.name()
        tc = {"kind": "NamedType", "loc": _loc(ts, self.prev), "name": n}
        dirs = self.directives()
        ss = self.selection_set()
        return {"kind": "FragmentDefinition", "loc": _loc(start, self.prev), "name": name,
                "typeCondition": tc, "directives": dirs, "selectionSet": ss}

    def value(self, const=False):
        t = self.tok
        if t.kind == 'punct':
            if t.value == '$':
                if const: self.err()
                return self.variable()
            if t.value == '[':
                self.i += 1; vals = []
                while not self.at('punct', ']'):
                    vals.append(self.value(const))
                self.eat('punct', ']')
                return {"kind": "ListValue", "loc": _loc(t, self.prev), "values": vals or None}
            if t.value == '{':
                self.i += 1; fields = []
                while not self.at('punct', '}'):
                    fs = self.tok
                    n = self.name(); self.eat('punct', ':'); v = self.value(const)
                    fields.append({"kind": "ObjectField", "loc": _loc(fs, self.prev), "name": n, "value": v})
                self.eat('punct', '}')
                return {"kind": "ObjectValue", "loc": _loc(t, self.prev), "fields": fields or None}
            self.err()
        self.i += 1
        loc = _loc(t, t)
        if t.kind == 'int': return {"kind": "IntValue", "loc": loc, "value": t.value}
        if t.kind == 'float': return {"kind": "FloatValue", "loc": loc, "value": t.value}
        if t.kind == 'string': return {"kind": "StringValue", "loc": loc, "value": t.value}
        if t.kind == 'name':
            if t.value == 'true': return {"kind": "BooleanValue", "loc": loc, "value": True}
            if t.value == 'false': return {"kind": "BooleanValue", "loc": loc, "value": False}
            if t.value == 'null': return {"kind": "NullValue", "loc": loc}
            return {"kind": "EnumValue", "loc": loc, "value": t.value}
        self.i -= 1
        self.err()

def parse_to_json(query):
    if isinstance(query, bytes):
        query = query.decode('utf-8')
    return json.dumps(Parser(query).document()).encode()
