"""Resolver data: a lazily grown, memoised data tree shared (as *test input*)
by the reference executor and the harness resolvers.

A node is a dict {"_nid": n, "_typename": T, "_shape": s, <field>: value...}.
`_shape`: 0 dict with `_typename` key; 1 object with `_typename` attribute;
2 object whose class is named after the type (default type resolver's last resort);
3 read-only mapping (types.MappingProxyType); 4 row-like object offering only __getitem__.
"""
from tfv.model import canon, fields_of, kind_of, named, possible_types, ty
from tfv.ref import Fault

MISSING = object()


class Tree:
    def __init__(self, schema, chooser=None, store=None):
        self.schema = schema
        self.c = chooser
        self.store = store if store is not None else {"nodes": {}, "next": 1, "roots": {}}
        self.faults = {}  # path tuple -> Fault
        self.undrawn = 0  # requests that could not be served from the memo (replay mode)

    # ------------------------------------------------------------- nodes
    def new_node(self, typename):
        n = self.store["next"]
        self.store["next"] = n + 1
        shape = self.c.weighted([(6, 0), (2, 1), (2, 2), (1, 3), (1, 4)]) if self.c else 0
        node = {"_nid": n, "_typename": typename, "_shape": shape}
        self.store["nodes"][str(n)] = node
        return node

    def root(self, typename):
        r = self.store["roots"].get(typename)
        if r is None:
            r = self.new_node(typename)["_nid"]
            self.store["roots"][typename] = r
        return self.store["nodes"][str(r)]

    def node(self, nid):
        return self.store["nodes"][str(nid)]

    # ------------------------------------------------------------- values
    def gen_value(self, t, depth):
        c = self.c
        if t[0] == "NN":
            return self.gen_nn(t[1], depth)
        if c.maybe(12):
            return None
        return self.gen_nn(t, depth)

    def gen_nn(self, t, depth):
        c = self.c
        if t[0] == "NN":
            t = t[1]
        if t[0] == "L":
            n = c.int(0, 3 if depth < 2 else 2)
            inner = t[1][1] if t[1][0] == "NN" else t[1]
            if depth == 0 and inner[0] == "N" and kind_of(self.schema, inner[1]) in ("SCALAR", "ENUM") and c.maybe(4):
                n = c.int(129, 150) if c.maybe(75) else c.int(513, 530)  # a long list of leaves: cheap, and beyond any batching inside the engine
            return [self.gen_value(t[1], depth + 1) for _ in range(n)]
        name = t[1]
        k = kind_of(self.schema, name)
        if k == "OBJECT":
            return {"$ref": self.new_node(name)["_nid"]}
        if k in ("INTERFACE", "UNION"):
            return {"$ref": self.new_node(c.choice(possible_types(self.schema, name)))["_nid"]}
        if k == "ENUM":
            return c.choice(self.schema["types"][name]["values"])
        if name == "Int":
            return c.choice([0, 1, -1, 2 ** 31 - 1, -(2 ** 31), c.int(-999, 999)])
        if name == "Float":
            return c.choice([0.0, 1.5, -2.25, 1e10, 3, c.int(-99, 99) / 8])
        if name == "String":
            return c.text()
        if name == "Boolean":
            return c.maybe(50)
        if name == "ID":
            return c.text(alphabet="abc09", lo=1) if c.maybe(60) else c.int(0, 9999)
        codec = self.schema["types"][name].get("codec", "tagged")
        if codec == "tagged":
            return "i:" + c.text(alphabet="ab0", hi=3)
        return c.int(-20, 20)

    def base_value(self, node, field, ftype):
        """memoised raw value of node.field (refs stay refs)"""
        v = node.get(field, MISSING)
        if v is MISSING:
            if self.c is None:
                self.undrawn += 1
                v = None
            else:
                v = self.gen_value(ftype, 0)
            node[field] = v
        return v


def deref(tree, v, mat=None):
    """replace {"$ref": n} by node dicts (reference side) or by materialised
    python objects (implementation side, mat = Materialiser)"""
    if isinstance(v, dict) and "$ref" in v:
        node = tree.node(v["$ref"])
        return mat.obj(node) if mat else node
    if isinstance(v, list):
        return [deref(tree, x, mat) for x in v]
    return v


def arg_echo(base, args):
    return "%s|%s" % (base, canon(args))


class RefProvider:
    """What the *reference* sees: plain node dicts."""

    def __init__(self, tree, echo_args=True, no_echo=()):
        self.tree = tree
        self.schema = tree.schema
        self.echo_args = echo_args
        self.no_echo = set(no_echo)  # coordinates read by the engine's own default resolver

    def nid(self, parent):
        return parent.get("_nid") if isinstance(parent, dict) else None

    def resolve(self, parent, obj, field, args, path):
        f = self.tree.faults.get(tuple(path)) or self.tree.faults.get(("$at", self.nid(parent), field))
        fd = fields_of(self.schema, obj)[field]
        t = ty(fd["type"])
        if f is not None and f.kind != "value_at_item":
            return f
        v = self.tree.base_value(parent, field, t)
        if self.echo_args and "%s.%s" % (obj, field) not in self.no_echo and args and fd["type"] in ("String", "String!") and isinstance(v, str):
            v = arg_echo(v, args)
        v = deref(self.tree, v)
        return self.apply_item_faults(v, path)

    def apply_item_faults(self, v, path):
        if isinstance(v, list) and self.tree.faults:
            out = []
            for i, x in enumerate(v):
                f = self.tree.faults.get(tuple(path) + (i,))
                if f is not None:
                    out.append(f)
                else:
                    out.append(self.apply_item_faults(x, tuple(path) + (i,)))
            return out
        return v

    def typename(self, value, abstract, coord):
        f = self.tree.faults.get(("$type", value.get("_nid")))
        if f is not None:
            return f.payload
        return value["_typename"]
