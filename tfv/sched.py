"""Controlled scheduler for asyncio: every harness awaitable parks on a gate;
the driver decides which gate (or burst of gates) completes next.

The engine's own coroutines never wait on anything else (no timers, no I/O),
so "loop._ready is empty" means quiescent, and permuting gate releases covers
every order in which the loop can complete the pending awaitables (DESIGN 2.5).
"""
import asyncio


class Deadlock(Exception):
    pass


class Sched:
    def __init__(self):
        self.pending = []  # (label, future)
        self.log = []  # ("start"|"finish", label)
        self.trace = []  # (number of options, chosen option)
        self.released = []  # labels in release order
        self.max_pending = 0

    async def gate(self, label):
        fut = asyncio.get_running_loop().create_future()
        self.log.append(("start", label))
        self.pending.append((label, fut))
        if len(self.pending) > self.max_pending:
            self.max_pending = len(self.pending)
        await fut
        self.log.append(("finish", label))

    @staticmethod
    async def quiesce():
        loop = asyncio.get_running_loop()
        while True:
            await asyncio.sleep(0)
            if not loop._ready:
                return

    def options(self):
        n = len(self.pending)
        return n + (2 if n > 1 else 0)

    def apply(self, k):
        n = len(self.pending)
        if k < n:
            label, fut = self.pending.pop(k)
            self.released.append(label)
            fut.set_result(None)
            return
        batch = list(self.pending)
        self.pending = []
        if k == n + 1:
            batch.reverse()
        for label, fut in batch:
            self.released.append(label)
            fut.set_result(None)

    async def drive(self, coro, script, bursts=True):
        """script: iterable of ints; beyond its end the first option (FIFO) is taken.
        Returns (result, leftover_tasks)."""
        it = iter(script)
        task = asyncio.ensure_future(coro)
        try:
            while True:
                await self.quiesce()
                if task.done():
                    break
                if not self.pending:
                    raise Deadlock("request not finished, nothing pending, loop idle")
                nopt = self.options() if bursts else len(self.pending)
                k = next(it, 0) % nopt
                self.trace.append((nopt, k))
                self.apply(k)
        finally:
            if not task.done():
                task.cancel()
                try:
                    await task
                except BaseException:  # noqa
                    pass
        leftovers = [t for t in asyncio.all_tasks() if t is not asyncio.current_task() and not t.done()]
        names = [repr(t.get_coro()) for t in leftovers]
        for t in leftovers:  # reported to the caller by name; never allowed to outlive this schedule
            t.cancel()
        if leftovers:
            await asyncio.gather(*leftovers, return_exceptions=True)
        for _, fut in self.pending:
            if not fut.done():
                fut.cancel()
        return task.result(), names

    def unfinished(self):
        started = [l for k, l in self.log if k == "start"]
        finished = [l for k, l in self.log if k == "finish"]
        out = list(started)
        for l in finished:
            if l in out:
                out.remove(l)
        return out


def successors(prefix_len, trace):
    """alternative scripts branching off `trace` at positions >= prefix_len"""
    out = []
    base = [k for _, k in trace]
    for i in range(prefix_len, len(trace)):
        n, k = trace[i]
        for alt in range(n):
            if alt != k:
                out.append(base[:i] + [alt])
    return out


async def explore(make_coro, budget, on_result, bursts=True, extra_scripts=()):
    """Enumerate schedules of `make_coro(sched)` depth-first until `budget` runs.
    on_result(sched, result, leftovers, script) is called per schedule.
    Returns (runs, exhaustive)."""
    stack = [[]]
    runs = 0
    exhaustive = True
    while stack:
        if runs >= budget:
            exhaustive = False
            break
        script = stack.pop()
        s = Sched()
        result, left = await s.drive(make_coro(s), script, bursts)
        runs += 1
        on_result(s, result, left, script)
        stack.extend(successors(len(script), s.trace))
    for script in extra_scripts:
        s = Sched()
        result, left = await s.drive(make_coro(s), script, bursts)
        runs += 1
        on_result(s, result, left, script)
    return runs, exhaustive
