"""Shared driver: hypothesis plumbing, worker pool, evidence, findings."""
import asyncio
import hashlib
import json
import multiprocessing
import os
import sys
import time
import traceback

from tfv import boot

boot.boot()

import hypothesis  # noqa: E402
from hypothesis import HealthCheck, Phase, given, settings, strategies as st  # noqa: E402

from tfv.gen import Chooser  # noqa: E402

VERIF = boot.VERIF
OUT = os.environ.get("TFV_OUT") or VERIF  # evidence/ and replays/ go here (redirected when evaluating seeded changes)


class Violation(Exception):
    def __init__(self, spec, message, tag=None):
        super().__init__(message)
        self.spec = spec
        self.message = message
        self.tag = tag


class HarnessError(Exception):
    pass


class BudgetExceeded(BaseException):
    """raised inside a test function to stop a run whose wall-clock budget is used up
    (BaseException: Hypothesis lets it through instead of treating it as a failure)"""


class HChooser(Chooser):
    """Chooser backed by hypothesis draws.  Drawing each choice separately costs
    ~0.1 ms; instead entropy is drawn in chunks of bytes (one cheap draw each)
    and consumed two bytes per choice.  All-zero bytes = the simplest choice
    everywhere, which is what the shrinker moves towards."""

    CHUNK = 512

    def __init__(self, data):
        self.data = data
        self.buf = b""
        self.pos = 0

    def _take(self, n):
        if self.pos + n > len(self.buf):
            self.buf = self.data.draw(st.binary(min_size=self.CHUNK, max_size=self.CHUNK))
            self.pos = 0
        v = int.from_bytes(self.buf[self.pos : self.pos + n], "big")
        self.pos += n
        return v

    def int(self, lo, hi):
        if lo >= hi:
            return lo
        span = hi - lo + 1
        if span <= 256:
            # multiply-shift keeps small byte values on small results
            return lo + (self._take(2) * span >> 16)
        if span <= 1 << 24:
            return lo + (self._take(4) * span >> 32)
        return lo + (self._take(9) * span >> 72)


def jsonable(x):
    if isinstance(x, dict):
        return {str(k): jsonable(v) for k, v in x.items()}
    if isinstance(x, (list, tuple)):
        return [jsonable(v) for v in x]
    if isinstance(x, set):
        return sorted((jsonable(v) for v in x), key=repr)
    if isinstance(x, float) and (x != x or x in (float("inf"), float("-inf"))):
        return {"$float": repr(x)}
    if isinstance(x, (str, int, float, bool)) or x is None:
        return x
    if isinstance(x, bytes):
        return {"$bytes": x.hex()}
    return {"$repr": repr(x)}


def scribble(resp, who):
    """After a check has taken its canonical copy of a response, annotate its error entries the way the
    documented error-coercer example does (in-place write into `extensions`, extra top-level key).  If the
    engine still shares those dicts with cached errors or rule-level constants, later responses show it.
    (`path` lists are left alone: nothing documents writing into them.)"""
    if isinstance(resp, dict):
        for e in resp.get("errors") or ():
            if isinstance(e, dict):
                # exactly what docs/api/engine.md shows an error coercer doing: error["extensions"][k] = v
                if isinstance(e.get("extensions"), dict):
                    e["extensions"]["zz_touched_by"] = who
                e["zz_touched_by"] = who


def spec_hash(spec):
    return hashlib.sha1(json.dumps(jsonable(spec), sort_keys=True).encode()).hexdigest()


_loop = None


def run_async(coro):
    """Run one coroutine to completion on the worker's loop.  Tasks a broken engine
    may have left behind in an earlier call are cancelled first, so that one case
    can never influence the next (Hypothesis re-runs failing cases and expects the
    same behaviour)."""
    global _loop
    if _loop is None or _loop.is_closed():
        _loop = asyncio.new_event_loop()
        asyncio.set_event_loop(_loop)
    stale = [t for t in asyncio.all_tasks(_loop) if not t.done()]
    if stale:
        for t in stale:
            t.cancel()
        _loop.run_until_complete(asyncio.gather(*stale, return_exceptions=True))
    return _loop.run_until_complete(coro)


class Stats:
    """per-worker accumulator"""

    def __init__(self, max_samples=4):
        self.evaluations = 0
        self.nontrivial = set()
        self.distinct = set()
        self.samples = []
        self.hist = {}
        self.known_hits = {}
        self.max_samples = max_samples
        self.truncated = False
        self.t0 = time.time()

    def case(self, spec, nontrivial, classes=(), sample=None):
        self.evaluations += 1
        h = spec_hash(spec)
        new = h not in self.distinct
        self.distinct.add(h)
        if nontrivial:
            if h not in self.nontrivial and len(self.samples) < self.max_samples:
                self.samples.append(jsonable(sample if sample is not None else spec))
            self.nontrivial.add(h)
        if new:
            for cl in classes:
                self.hist[cl] = self.hist.get(cl, 0) + 1

    def known(self, fid):
        self.known_hits[fid] = self.known_hits.get(fid, 0) + 1

    def export(self):
        return {
            "evaluations": self.evaluations,
            "nontrivial": sorted(self.nontrivial),
            "distinct": len(self.distinct),
            "samples": self.samples,
            "hist": self.hist,
            "known_hits": self.known_hits,
            "truncated": self.truncated,
        }


def hyp_settings(max_examples, shrink=True):
    phases = [Phase.generate] + ([Phase.shrink] if shrink else [])
    return settings(
        max_examples=max_examples,
        deadline=None,
        database=None,
        derandomize=False,
        report_multiple_bugs=False,
        phases=phases,
        suppress_health_check=list(HealthCheck),
        print_blob=False,
    )


def run_property(case_fn, seed, max_examples, stats, budget_s=None, shrink=True, batches=8):
    """case_fn(chooser, stats) is one generated case; raises Violation on an oracle
    failure.  Returns None or the (shrunk) Violation.

    The examples are run as a sequence of independent Hypothesis runs (batches with
    derived seeds).  The wall-clock budget is only consulted *between* batches: a
    budget hit truncates the run (recorded in evidence), it never influences what a
    batch generates, so every batch is a pure function of (code, seed)."""
    t_end = time.time() + budget_s if budget_s else None
    per = max(20, -(-max_examples // batches))  # every Hypothesis run starts with its simplest example: keep batches large
    done = 0
    b = 0
    while done < max_examples:
        if t_end and time.time() > t_end and b > 0:
            stats.truncated = True
            break
        n = min(per, max_examples - done)

        seen = []

        @hypothesis.seed(derive_seed(seed, 1000 + b))
        @hyp_settings(n, shrink)
        @given(st.data())
        def test(data):
            try:
                case_fn(HChooser(data), stats)
            except Violation as v:
                seen.append(v)
                raise

        try:
            test()
        except Violation as v:
            return v
        except BaseException as e:  # noqa
            # A violation that does not reproduce when Hypothesis re-runs the same case (the code under test
            # kept state from the first run) surfaces as a Flaky* error: the first observation still stands.
            if seen and type(e).__name__.startswith("Flaky"):
                v = seen[0]
                v.message = "(not reproducible on immediate re-execution: the engine keeps state across requests/engines) " + v.message
                return v
            raise
        done += n
        b += 1
    return None


# --------------------------------------------------------------------- pool


def _worker(args):
    modname, seed, tier, index, nworkers = args
    try:
        mod = __import__(modname, fromlist=["x"])
        res = mod.run_worker(seed, tier, index, nworkers)
        return {"ok": True, "res": res}
    except (KeyboardInterrupt, SystemExit):
        raise
    except BaseException:  # noqa - harness fault (BaseException too: a dying pool worker would hang the pool)
        return {"ok": False, "tb": traceback.format_exc()}


def derive_seed(seed, index):
    return (seed * 1000003 + index * 7919 + 17) % (2 ** 63)


def run_pool(modname, seed, tier, nworkers):
    args = [(modname, derive_seed(seed, i), tier, i, nworkers) for i in range(nworkers)]
    if nworkers == 1:
        return [_worker(args[0])]
    ctx = multiprocessing.get_context("fork")
    with ctx.Pool(nworkers) as pool:
        return pool.map(_worker, args, chunksize=1)


# --------------------------------------------------------------------- findings


def load_findings():
    p = os.path.join(VERIF, "known_findings.json")
    if not os.path.exists(p):
        return []
    with open(p) as f:
        return json.load(f)["findings"]


def findings_for(prop):
    return [f for f in load_findings() if f["property"] == prop]


# --------------------------------------------------------------------- evidence


def write_evidence(prop, tier, seed, level, coverage, wall_s, violations, assumptions=None):
    os.makedirs(os.path.join(OUT, "evidence"), exist_ok=True)
    ev = {
        "property_id": prop,
        "tier": tier,
        "seed": seed,
        "level": level,
        "coverage": coverage,
        "assumptions": assumptions or [],
        "wall_s": round(wall_s, 3),
        "violations": violations,
    }
    p = os.path.join(OUT, "evidence", "%s.json" % prop)
    tmp = p + ".tmp"
    with open(tmp, "w") as f:
        json.dump(jsonable(ev), f, indent=1, sort_keys=True)
        f.write("\n")
    os.replace(tmp, p)
    return p


def write_replay(prop, spec):
    os.makedirs(os.path.join(OUT, "replays"), exist_ok=True)
    h = spec_hash(spec)[:12]
    p = os.path.join(OUT, "replays", "%s-%s.json" % (prop, h))
    with open(p, "w") as f:
        json.dump(jsonable(spec), f, indent=1, sort_keys=True)
        f.write("\n")
    return p


def merge_results(results):
    m = {"evaluations": 0, "nontrivial": set(), "distinct": 0, "samples": [], "hist": {}, "known_hits": {}, "truncated": False, "violations": [], "extra": {}}
    for r in results:
        m["evaluations"] += r["evaluations"]
        m["nontrivial"] |= set(r["nontrivial"])
        m["distinct"] += r["distinct"]
        for s in r["samples"]:
            if len(m["samples"]) < 5:
                m["samples"].append(s)
        for k, v in r["hist"].items():
            m["hist"][k] = m["hist"].get(k, 0) + v
        for k, v in r["known_hits"].items():
            m["known_hits"][k] = m["known_hits"].get(k, 0) + v
        m["truncated"] = m["truncated"] or r["truncated"]
        m["violations"].extend(r.get("violations", []))
        for k, v in (r.get("extra") or {}).items():
            if isinstance(v, (int, float)):
                m["extra"][k] = m["extra"].get(k, 0) + v
            else:
                m["extra"].setdefault(k, v)
    return m
