"""CLI: ./check <ID> [--tier quick|thorough] [--replay path] [--workers N]"""
import argparse
import json
import os
import sys
import time
import traceback

HERE = os.path.dirname(os.path.dirname(os.path.abspath(__file__)))
if HERE not in sys.path:
    sys.path.insert(0, HERE)

from tfv import boot  # noqa: E402


def main():
    ap = argparse.ArgumentParser()
    ap.add_argument("prop")
    ap.add_argument("--tier", default=os.environ.get("VERIF_TIER") or "quick", choices=["quick", "thorough"])
    ap.add_argument("--replay")
    ap.add_argument("--workers", type=int)
    ap.add_argument("--scale", type=float, default=1.0, help="multiply case counts (debugging)")
    a = ap.parse_args()
    boot.reexec_pinned()
    boot.boot()
    os.chdir(HERE)
    prop = a.prop.upper()
    try:
        seed = int(os.environ.get("VERIF_SEED", "1") or "1")
    except ValueError:
        seed = 1
    os.environ["TFV_SCALE"] = str(a.scale)
    try:
        from tfv import core

        modname = "tfv.props.%s" % prop.lower()
        mod = __import__(modname, fromlist=["x"])
        if a.replay:
            with open(a.replay) as f:
                spec = json.load(f)
            try:
                mod.replay(spec)
            except core.Violation as v:
                print("replay reproduces: %s" % v.message)
                print("VIOLATION property=%s replay=%s" % (prop, a.replay))
                return 1
            print("replay passes (no violation)")
            return 0
        t0 = time.time()
        violations = []
        # 1. witnesses of known findings
        for f in core.findings_for(prop):
            wpath = os.path.join(HERE, f["witness"]) if f.get("witness") else None
            if not wpath or not os.path.exists(wpath):
                continue
            with open(wpath) as fh:
                spec = json.load(fh)
            try:
                mod.replay(spec)
                failed = None
            except core.Violation as v:
                failed = v
            if f["status"] == "open":
                if failed is not None:
                    print("KNOWN-FINDING: property=%s %s [%s]" % (prop, f["what"], f["id"]))
                else:
                    print("note: known finding %s no longer reproduces from its witness" % f["id"])
            else:  # fixed: must stay fixed
                if failed is not None:
                    print("fixed finding %s reproduces again: %s" % (f["id"], failed.message))
                    violations.append({"replay": f["witness"], "message": failed.message})
        # 2. generated search
        nworkers = a.workers or mod.WORKERS[a.tier]
        results = core.run_pool(modname, seed, a.tier, nworkers)
        bad = [r for r in results if not r["ok"]]
        if bad:
            print("HARNESS ERROR in %d worker(s):\n%s" % (len(bad), bad[0]["tb"]))
            return 2
        m = core.merge_results([r["res"] for r in results])
        for v in m["violations"]:
            p = core.write_replay(prop, v["spec"])
            violations.append({"replay": os.path.relpath(p, HERE), "message": v["message"]})
        wall = time.time() - t0
        coverage = {
            "evaluations": m["evaluations"],
            "distinct_cases": m["distinct"],
            "distinct_nontrivial": len(m["nontrivial"]),
            "rule": mod.RULE,
            "samples": m["samples"],
            "class_histogram": dict(sorted(m["hist"].items())),
            "known_finding_hits": m["known_hits"],
            "truncated": m["truncated"],
            "workers": nworkers,
        }
        coverage.update(m["extra"])
        if hasattr(mod, "coverage_extra"):
            coverage.update(mod.coverage_extra(a.tier))
        core.write_evidence(prop, a.tier, seed, mod.LEVEL, coverage, wall, len(violations), getattr(mod, "ASSUMPTIONS", []))
        print(
            "%s tier=%s seed=%d evaluations=%d distinct_nontrivial=%d known_hits=%s wall=%.1fs%s"
            % (prop, a.tier, seed, m["evaluations"], len(m["nontrivial"]), m["known_hits"], wall, " TRUNCATED" if m["truncated"] else "")
        )
        if violations:
            for v in violations:
                print("  " + v["message"].replace("\n", "\n  "))
                print("VIOLATION property=%s replay=%s" % (prop, v["replay"]))
            return 1
        if len(m["nontrivial"]) < 2:
            print("HARNESS ERROR: generator produced < 2 non-trivial cases")
            return 2
        return 0
    except Exception:
        print("HARNESS ERROR:\n" + traceback.format_exc())
        return 2


if __name__ == "__main__":
    sys.exit(main())
