#!/venv/bin/python
"""usage: tools/seed_eval.py /tmp/seed/C01a [--checks C01,C06] [--scale 1.0] [--keep] [--skip-suite]
Confirms a seeded change in a scratch worktree of /repo (patch applies; demo exits 0 without and 1 with it;
pinned suite unchanged), then runs the given checks (default: the property's own quick check) against that
worktree (TFV_REPO) with evidence redirected (TFV_OUT).  /repo and /verif/evidence are never touched.
With --keep, copies the seed to /verif/seeded/<name>/ with the verification recorded in meta.json."""
import argparse, json, os, shutil, subprocess, sys

ap = argparse.ArgumentParser()
ap.add_argument("dir")
ap.add_argument("--checks")
ap.add_argument("--scale", default="1.0")
ap.add_argument("--keep", action="store_true")
ap.add_argument("--skip-suite", action="store_true")
a = ap.parse_args()
d = a.dir.rstrip("/")
name = os.path.basename(d)
meta = json.load(open(os.path.join(d, "meta.json")))
prop = name[:3]
checks = a.checks.split(",") if a.checks else [prop]
wt = "/tmp/wt/eval_%s" % name
out = "/tmp/seed_out/eval_%s" % name


def sh(cmd, **kw):
    return subprocess.run(cmd, shell=True, capture_output=True, text=True, **kw)


sh("git -C /repo worktree remove --force %s" % wt)
sh("git -C /repo worktree prune")
r = sh("git -C /repo worktree add -q --detach %s HEAD" % wt)
assert r.returncode == 0, r.stderr
env = dict(os.environ, LIBGRAPHQLPARSER_DIR="/verif/.build", PYTHONPATH="/verif:" + wt)
res = {}
try:
    def demo():
        return sh("/venv/bin/python %s/demo.py" % d, env=env, cwd="/tmp").returncode

    def suite():
        return sh("cd %s && timeout 1200 /venv/bin/python -m pytest -q -p no:cacheprovider --timeout=900 --continue-on-collection-errors 2>&1 | tail -1" % wt).stdout.strip()

    res["demo_without"] = demo()
    ap_ = sh("git -C %s apply %s/patch.diff" % (wt, d))
    if ap_.returncode != 0:
        print("%s PATCH DOES NOT APPLY: %s" % (name, ap_.stderr[:300]))
        sys.exit(3)
    res["demo_with"] = demo()
    res["suite_with"] = "skipped" if a.skip_suite else suite()
    res["checks"] = {}
    shutil.rmtree(out, ignore_errors=True)
    os.makedirs(out)
    for c in checks:
        r = sh("/verif/check %s --scale %s" % (c, a.scale), env=dict(os.environ, TFV_REPO=wt, TFV_OUT=out))
        tail = [l for l in r.stdout.strip().splitlines() if not l.startswith("KNOWN-FINDING")]
        res["checks"][c] = {"rc": r.returncode, "verdict": {0: "MISSED", 1: "CAUGHT"}.get(r.returncode, "HARNESS-ERROR"), "tail": "\n".join(tail[-12:])[:1500]}
finally:
    sh("git -C /repo worktree remove --force %s" % wt)
    shutil.rmtree(out, ignore_errors=True)
ok = res["demo_without"] == 0 and res["demo_with"] == 1 and (a.skip_suite or "641 passed" in res["suite_with"])
print("%s confirmed=%s demo_without=%s demo_with=%s suite=%r" % (name, ok, res["demo_without"], res["demo_with"], res["suite_with"]))
for c, v in res["checks"].items():
    print("  %s: %s" % (c, v["verdict"]))
    if v["verdict"] != "CAUGHT":
        print("    " + v["tail"].replace("\n", "\n    ")[:600])
if a.keep and ok:
    dst = "/verif/seeded/%s" % name
    os.makedirs(dst, exist_ok=True)
    for f in ("patch.diff", "demo.py"):
        shutil.copy(os.path.join(d, f), dst)
    old = {}
    if os.path.exists(os.path.join(dst, "meta.json")):
        old = json.load(open(os.path.join(dst, "meta.json")))
    meta["property"] = prop
    conf = (old.get("confirmed") or {})
    conf.update({"demo_exit_without_patch": res["demo_without"], "demo_exit_with_patch": res["demo_with"],
                 "how": "tools/seed_eval.py: scratch worktree of /repo; git apply patch.diff; LIBGRAPHQLPARSER_DIR=/verif/.build PYTHONPATH=/verif:<worktree> /venv/bin/python demo.py; pinned pytest command in the worktree; TFV_REPO=<worktree> ./check <ID>; worktree removed"})
    if not a.skip_suite or "pinned_suite_with_patch" not in conf or conf.get("pinned_suite_with_patch") == "skipped":
        conf["pinned_suite_with_patch"] = res["suite_with"]
    meta["confirmed"] = conf
    meta["checks"] = {c: v["verdict"] for c, v in res["checks"].items()}
    json.dump(meta, open(os.path.join(dst, "meta.json"), "w"), indent=1)
