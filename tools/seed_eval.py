#!/venv/bin/python
"""usage: tools/seed_eval.py /tmp/seed/C01a [--checks C01,C06] [--scale 1.0] [--keep]
Confirms a seeded change (applies to /repo, demo passes without / fails with it, pinned suite
unchanged), then runs the given checks (default: the property's own) against it and reverts.
With --keep, copies it to /verif/seeded/<name>/ with the verification recorded in meta.json."""
import argparse, json, os, shutil, subprocess, sys

ap = argparse.ArgumentParser()
ap.add_argument("dir")
ap.add_argument("--checks")
ap.add_argument("--scale", default="1.0")
ap.add_argument("--keep", action="store_true")
ap.add_argument("--skip-suite", action="store_true")
a = ap.parse_args()
d = a.dir.rstrip("/")
name = os.path.basename(d)
meta = json.load(open(os.path.join(d, "meta.json")))
prop = meta.get("property", name[:3])
checks = a.checks.split(",") if a.checks else [prop]
env = dict(os.environ, LIBGRAPHQLPARSER_DIR="/verif/.build", PYTHONPATH="/verif:/repo")


def sh(cmd, **kw):
    return subprocess.run(cmd, shell=True, capture_output=True, text=True, **kw)


def demo():
    return sh("/venv/bin/python %s/demo.py" % d, env=env, cwd="/tmp").returncode


def suite():
    r = sh("cd /repo && timeout 1200 /venv/bin/python -m pytest -q -p no:cacheprovider --timeout=900 --continue-on-collection-errors 2>&1 | tail -1")
    return r.stdout.strip()


assert sh("git -C /repo status --porcelain").stdout.strip() == "", "/repo not clean"
res = {"demo_without": demo()}
ap_ = sh("git -C /repo apply %s/patch.diff" % d)
if ap_.returncode != 0:
    print("PATCH DOES NOT APPLY:", ap_.stderr[:500]); sys.exit(3)
shutil.rmtree("/tmp/tfv_ev_backup", ignore_errors=True)
shutil.copytree("/verif/evidence", "/tmp/tfv_ev_backup")
before = set(os.listdir("/verif/replays")) if os.path.isdir("/verif/replays") else set()
try:
    res["demo_with"] = demo()
    res["suite_with"] = "skipped" if a.skip_suite else suite()
    res["checks"] = {}
    for c in checks:
        r = sh("/verif/check %s --scale %s" % (c, a.scale))
        tail = [l for l in r.stdout.strip().splitlines() if not l.startswith("KNOWN-FINDING")]
        res["checks"][c] = {"rc": r.returncode, "verdict": {0: "MISSED", 1: "CAUGHT"}.get(r.returncode, "HARNESS-ERROR"), "tail": "\n".join(tail[-12:])[:1500]}
finally:
    sh("git -C /repo checkout -- .")
    shutil.rmtree("/verif/evidence", ignore_errors=True)
    shutil.copytree("/tmp/tfv_ev_backup", "/verif/evidence")
    shutil.rmtree("/tmp/tfv_ev_backup", ignore_errors=True)
    if os.path.isdir("/verif/replays"):
        for x in set(os.listdir("/verif/replays")) - before:
            os.remove(os.path.join("/verif/replays", x))
ok = res["demo_without"] == 0 and res["demo_with"] == 1 and (a.skip_suite or "641 passed" in res["suite_with"])
print("%s confirmed=%s demo_without=%s demo_with=%s suite=%r" % (name, ok, res["demo_without"], res["demo_with"], res["suite_with"]))
for c, v in res["checks"].items():
    print("  %s: %s" % (c, v["verdict"]))
    if v["verdict"] != "CAUGHT":
        print("    " + v["tail"].replace("\n", "\n    ")[:600])
if a.keep and ok:
    out = "/verif/seeded/%s" % name
    os.makedirs(out, exist_ok=True)
    for f in ("patch.diff", "demo.py"):
        shutil.copy(os.path.join(d, f), out)
    meta["confirmed"] = {"demo_exit_without_patch": res["demo_without"], "demo_exit_with_patch": res["demo_with"], "pinned_suite_with_patch": res["suite_with"],
                         "how": "tools/seed_eval.py: git -C /repo apply patch.diff; LIBGRAPHQLPARSER_DIR=/verif/.build PYTHONPATH=/verif:/repo /venv/bin/python demo.py; pinned pytest command; ./check <ID>; git -C /repo checkout -- ."}
    meta["checks"] = {c: v["verdict"] for c, v in res["checks"].items()}
    json.dump(meta, open(os.path.join(out, "meta.json"), "w"), indent=1)
