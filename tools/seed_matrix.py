#!/venv/bin/python
"""Run every kept seeded change (/verif/seeded/*) against its property's quick check, in scratch
worktrees of /repo (so /repo and /verif/evidence stay untouched), 4 at a time; writes seeded/README.md."""
import json, os, subprocess, sys, shutil, concurrent.futures as cf

HEAD = subprocess.check_output(["git", "-C", "/repo", "rev-parse", "HEAD"], text=True).strip()
seeds = sorted(d for d in os.listdir("/verif/seeded") if os.path.isdir("/verif/seeded/" + d))
only = sys.argv[1:]
if only:
    seeds = [s for s in seeds if s in only or s[:3] in only]
by_prop = {}
for s in seeds:
    by_prop.setdefault(s[:3], []).append(s)


def run_prop(prop):
    wt = "/tmp/wt/m_%s" % prop
    out = "/tmp/seed_out/%s" % prop
    subprocess.run(["git", "-C", "/repo", "worktree", "remove", "--force", wt], capture_output=True)
    subprocess.run(["git", "-C", "/repo", "worktree", "add", "-q", "--detach", wt, HEAD], check=True)
    res = {}
    try:
        for s in by_prop[prop]:
            shutil.rmtree(out, ignore_errors=True)
            os.makedirs(out)
            a = subprocess.run(["git", "-C", wt, "apply", "/verif/seeded/%s/patch.diff" % s], capture_output=True, text=True)
            if a.returncode:
                res[s] = ("PATCH-FAILS", a.stderr[:200]); continue
            env = dict(os.environ, TFV_REPO=wt, TFV_OUT=out)
            r = subprocess.run(["/verif/check", prop], capture_output=True, text=True, env=env)
            lines = [l for l in r.stdout.strip().splitlines() if not l.startswith("KNOWN-FINDING")]
            res[s] = ({0: "MISSED", 1: "CAUGHT"}.get(r.returncode, "HARNESS-ERROR"), "\n".join(lines[-3:])[:300])
            subprocess.run(["git", "-C", wt, "checkout", "--", "."])
    finally:
        subprocess.run(["git", "-C", "/repo", "worktree", "remove", "--force", wt], capture_output=True)
        shutil.rmtree(out, ignore_errors=True)
    return res


allres = {}
with cf.ThreadPoolExecutor(3) as ex:
    for res in ex.map(run_prop, sorted(by_prop)):
        allres.update(res)
        for k, v in res.items():
            print(k, v[0], flush=True)
# verdicts of this run go into the seeds' meta.json; README.md is regenerated from all meta.json files
for s_ in seeds:
    meta = json.load(open("/verif/seeded/%s/meta.json" % s_))
    meta["checks"] = {s_[:3]: allres[s_][0]}
    json.dump(meta, open("/verif/seeded/%s/meta.json" % s_, "w"), indent=1)
rows = []
for s_ in sorted(d for d in os.listdir("/verif/seeded") if os.path.isdir("/verif/seeded/" + d)):
    meta = json.load(open("/verif/seeded/%s/meta.json" % s_))
    verdict = (meta.get("checks") or {}).get(s_[:3], "not run")
    rows.append("| %s | %s | %s | %s |" % (s_, verdict, meta.get("summary", "").replace("\n", " ").replace("|", "/")[:230], meta.get("needs", "").replace("\n", " ").replace("|", "/")[:200]))
with open("/verif/seeded/README.md", "w") as f:
    f.write("# Independently seeded changes\n\nEach directory holds `patch.diff` (a change to tartiflette that breaks the named property while the pinned suite still passes), `demo.py` (exits 0 without the patch, 1 with it) and `meta.json` (what it needs to manifest, how it was confirmed, which check catches it). They were written by sub-agents that saw only the property text and a scratch worktree, and were confirmed with `tools/seed_eval.py`. The verdicts below are the latest ones recorded by `tools/seed_matrix.py` / `tools/seed_eval.py` (quick tier, VERIF_SEED=1, patch applied in a scratch worktree used through `TFV_REPO`).\n\n| seed | own check (quick) | change | needs |\n|---|---|---|---|\n")
    f.write("\n".join(rows) + "\n")
print("caught %d / %d" % (sum(1 for v in allres.values() if v[0] == "CAUGHT"), len(allres)))
