#!/venv/bin/python
"""Writes the hand-made witness specs for C07 findings (documented in known_findings.json)."""
import json
schema = {"types": {
    "Query": {"kind": "OBJECT", "fields": {"cat": {"type": "Cat", "args": {}}, "pet": {"type": "Pet", "args": {}}, "f": {"type": "Int", "args": {"a": {"type": "[Int!]"}, "e": {"type": "E"}}}}, "interfaces": []},
    "Pet": {"kind": "INTERFACE", "fields": {"name": {"type": "String", "args": {}}}},
    "Cat": {"kind": "OBJECT", "fields": {"name": {"type": "String", "args": {}}}, "interfaces": ["Pet"]},
    "Dog": {"kind": "OBJECT", "fields": {"name": {"type": "String", "args": {}}}, "interfaces": ["Pet"]},
    "E": {"kind": "ENUM", "values": ["A", "B"]}},
    "roots": {"query": "Query"}, "directives": {}}
tree = {"nodes": {"1": {"_nid": 1, "_typename": "Query", "_shape": 0, "cat": {"$ref": 2}, "pet": {"$ref": 2}, "f": 1}, "2": {"_nid": 2, "_typename": "Cat", "_shape": 0, "name": "c"}}, "next": 3, "roots": {"Query": 1}}
plan = {"default_fields": [], "tr_field": [], "tr_type": []}
def f(name, sels=None, args=None): return {"k": "field", "alias": None, "name": name, "args": args or [], "dirs": [], "sels": sels, "id": None}
def op(sels, vars=None): return {"k": "op", "type": "query", "name": "Q", "vars": vars or [], "dirs": [], "sels": sels}
def spec(doc, rewrite, site): return {"schema": schema, "plan": plan, "doc": {"defs": doc}, "op": "Q", "variables": {}, "tree": tree, "root": "Query", "rewrite": rewrite, "site_class": site}
W = {
 "C07-impossible-inline": spec([op([f("cat", [{"k": "inline", "on": "Dog", "dirs": [], "sels": [f("name")], "id": None}])])], "impossible_spread", "inline_in_operation_nested"),
 "C07-nested-variable": spec([op([f("f", args=[["a", ["list", [["var", "s"]]]]])], vars=[{"name": "s", "type": "String"}])], "variable_not_allowed", "wrong_named_type@nested1_field_op"),
 "C07-typename-arg-on-interface": spec([op([f("pet", [f("__typename", args=[["x", ["int", "1"]]])])])], "unknown_argument", "field_meta_interface_in_operation_nested"),
 "C07-dunder-field": spec([op([f("cat", [f("name"), f("__nope")])])], "unknown_field", "dunder_object_in_operation_nested"),
 "C07-string-for-enum": spec([op([f("f", args=[["e", ["str", "A"]]])])], "ill_typed_literal", "string_for_enum@top_field_op"),
 "C07-typename-subselection": spec([op([f("pet", [f("__typename", [f("__typename")])])])], "selection_on_leaf", "in_operation_nested"),
}
for k, v in W.items():
    json.dump(v, open("/verif/witness/%s.json" % k, "w"), indent=1)
print(sorted(W))
