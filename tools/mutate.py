#!/venv/bin/python
"""usage: tools/mutate.py <repo-relative file> <old> <new> -- <check args...>
Replace the first occurrence of <old> by <new> in /repo/<file>, run ./check with
the given args, then restore the file (git checkout).  For sensitivity testing."""
import subprocess, sys, shutil, os
i = sys.argv.index("--")
f, old, new = sys.argv[1:4]
args = sys.argv[i + 1:]
p = "/repo/" + f
s = open(p).read()
if old not in s:
    print("pattern not found"); sys.exit(3)
open(p, "w").write(s.replace(old, new, 1))
shutil.rmtree("/tmp/tfv_ev_backup", ignore_errors=True)
shutil.copytree("/verif/evidence", "/tmp/tfv_ev_backup")
before = set(os.listdir("/verif/replays")) if os.path.isdir("/verif/replays") else set()
try:
    r = subprocess.run(["/verif/check"] + args, capture_output=True, text=True)
    out = r.stdout.strip().splitlines()
    print("\n".join(out[-6:])[:1500])
    print("MUTANT rc=%d (%s)" % (r.returncode, "KILLED" if r.returncode == 1 else "SURVIVED" if r.returncode == 0 else "HARNESS-ERROR"))
finally:
    subprocess.run(["git", "-C", "/repo", "checkout", "--", f])
    shutil.rmtree("/verif/evidence", ignore_errors=True)
    shutil.copytree("/tmp/tfv_ev_backup", "/verif/evidence")
    shutil.rmtree("/tmp/tfv_ev_backup", ignore_errors=True)
    if os.path.isdir("/verif/replays"):
        for x in set(os.listdir("/verif/replays")) - before:
            os.remove(os.path.join("/verif/replays", x))
