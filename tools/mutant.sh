#!/bin/sh
# usage: tools/mutant.sh <patchfile> <check args...>   - apply patch to /repo, run ./check, revert.
P="$1"; shift
cd /repo || exit 3
git apply "$P" || { echo "patch does not apply"; exit 3; }
cd /verif
./check "$@"
rc=$?
git -C /repo checkout -- .
echo "mutant rc=$rc"
exit $rc
