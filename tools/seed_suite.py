#!/venv/bin/python
"""Fill in confirmed.pinned_suite_with_patch for kept seeds that were evaluated with --skip-suite:
scratch worktree of /repo, apply the patch, run the pinned pytest command, record its last line."""
import json, os, subprocess, sys

todo = []
for s in sorted(os.listdir("/verif/seeded")):
    mp = "/verif/seeded/%s/meta.json" % s
    if not os.path.isfile(mp):
        continue
    m = json.load(open(mp))
    v = (m.get("confirmed") or {}).get("pinned_suite_with_patch")
    if not v or v == "skipped":
        todo.append(s)
print("to do:", todo)
for s in todo:
    wt = "/tmp/wt/suite_%s" % s
    subprocess.run(["git", "-C", "/repo", "worktree", "remove", "--force", wt], capture_output=True)
    subprocess.run(["git", "-C", "/repo", "worktree", "add", "-q", "--detach", wt, "HEAD"], check=True)
    try:
        a = subprocess.run(["git", "-C", wt, "apply", "/verif/seeded/%s/patch.diff" % s], capture_output=True, text=True)
        if a.returncode:
            line = "patch does not apply to the current HEAD: " + a.stderr.strip()[:120]
        else:
            r = subprocess.run("cd %s && timeout 1200 /venv/bin/python -m pytest -q -p no:cacheprovider --timeout=900 --continue-on-collection-errors 2>&1 | tail -1" % wt, shell=True, capture_output=True, text=True)
            line = r.stdout.strip()
    finally:
        subprocess.run(["git", "-C", "/repo", "worktree", "remove", "--force", wt], capture_output=True)
    mp = "/verif/seeded/%s/meta.json" % s
    m = json.load(open(mp))
    m.setdefault("confirmed", {})["pinned_suite_with_patch"] = line
    json.dump(m, open(mp, "w"), indent=1)
    print(s, line, flush=True)
