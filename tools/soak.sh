#!/bin/sh
# Quiet-on-the-unchanged-tree soak: every quick check at several seeds, evidence redirected to /tmp/tfv_soak.
# usage: tools/soak.sh 2 3 4 5
cd /verif
for s in "$@"; do
  echo "== seed $s"
  TFV_OUT=/tmp/tfv_soak VERIF_SEED=$s tools/run_all.sh quick 2>&1 | grep -v "^KNOWN"
done
rm -rf /tmp/tfv_soak
