#!/bin/sh
# Run every registered quick (or $1=thorough) check on the current tree; print one line each.
# A check that exceeds the wall limit is killed and reported (rc=124): a hang is a harness fault, never a verdict.
cd "$(dirname "$0")/.."
TIER=${1:-quick}
LIMIT=600; [ "$TIER" = thorough ] && LIMIT=1800
for id in $(/venv/bin/python -c "import json;print(' '.join(c['property_id'] for c in json.load(open('MANIFEST.json'))['checks']))"); do
  out=$(timeout -k 10 $LIMIT ./check $id --tier $TIER 2>&1); rc=$?
  echo "$id rc=$rc $(echo "$out" | grep -E "^C[0-9]+ tier" | cut -c1-160)"
  if [ $rc -ne 0 ]; then echo "$out" | tail -5 | cut -c1-400; fi
done
