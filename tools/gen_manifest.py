#!/venv/bin/python
"""Regenerates MANIFEST.json from the property modules present in tfv/props."""
import importlib, json, os, sys
sys.path.insert(0, "/verif")
os.environ.setdefault("TFV_PINNED", "1")
from tfv import boot
boot.boot()
ALL = ["C%02d" % i for i in range(1, 19)]
checks, na = [], []
NA_REASONS = json.load(open("/verif/tools/not_applicable.json")) if os.path.exists("/verif/tools/not_applicable.json") else {}
for pid in ALL:
    try:
        m = importlib.import_module("tfv.props." + pid.lower())
    except ImportError:
        na.append({"property_id": pid, "reason": NA_REASONS.get(pid, "check not built yet (work in progress); no verdict is claimed")})
        continue
    checks.append({
        "property_id": pid,
        "quick_cmd": "./check %s --tier quick" % pid,
        "thorough_cmd": "./check %s --tier thorough" % pid,
        "evidence_file": "/verif/evidence/%s.json" % pid,
        "replay_cmd_template": "./check %s --replay {path}" % pid,
        "engine": "tfv",
        "level_claimed": {"category": m.LEVEL, "text": m.LEVEL_TEXT, "design_ref": "DESIGN.md section 3, " + pid},
        "level_note": m.LEVEL_NOTE,
        "technique": m.TECHNIQUE,
    })
manifest = {
    "version": 1,
    "setup_cmd": "./setup.sh",
    "hooks": {
        "guard": "TARTIFLETTE_VERIF",
        "enable": "no source hooks exist: checks import /repo's working tree as is and set LIBGRAPHQLPARSER_DIR=/verif/.build (stand-in parser library built by setup.sh); TARTIFLETTE_VERIF=1 is exported for completeness",
        "baseline_off_cmd": "cd /repo && /venv/bin/python -m pytest -ra -q -p no:cacheprovider --timeout=900 --continue-on-collection-errors",
        "source_commits": [],
        "add_only": True,
    },
    "engines": [{"name": "tfv", "path": "/verif/tfv", "serves_properties": [c["property_id"] for c in checks],
                 "kind_free_text": "Hypothesis-driven generators + independent reference model + controlled asyncio scheduler, run against /repo's working tree"}],
    "checks": checks,
    "not_applicable": na,
    "notes": "See DESIGN.md. VERIF_SEED selects the Hypothesis seed; exit 2 = harness fault (never a violation).",
}
json.dump(manifest, open("/verif/MANIFEST.json", "w"), indent=1)
print("checks:", [c["property_id"] for c in checks], "not claimed:", [n["property_id"] for n in na])
