#!/bin/sh
# Harness health check (not a property verdict): run the upstream functional + unit tests of
# /repo with the stand-in parser library in place.  Prints the pytest summary lines.
cd /repo || exit 2
for d in tests/functional tests/unit; do
  LIBGRAPHQLPARSER_DIR=/verif/.build PYTHONPATH=/verif PYTHONDONTWRITEBYTECODE=1 \
    /venv/bin/python -m pytest $d -q -p no:cacheprovider -n 12 --timeout=900 2>&1 | grep -E "^FAILED|passed|failed" | cut -c1-200
done
