#!/bin/sh
# MANIFEST.setup_cmd: offline build of the harness (stand-in parser library + hypothesis if missing)
HERE="$(cd "$(dirname "$0")" && pwd)"
PY=/venv/bin/python
[ -x "$PY" ] || PY=python3
cd "$HERE" && exec "$PY" -c "
import sys; sys.path.insert(0, '$HERE')
from tfv import boot
boot.build_trampoline(force=True); boot.boot()
import tartiflette, hypothesis
print('setup ok: tartiflette', tartiflette.__file__, 'hypothesis', hypothesis.__version__)
"
